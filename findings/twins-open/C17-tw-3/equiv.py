"""Equivalence digest for the polarization / Fresnel part of optiland.

Prints one line per scenario: a label and the sha1 of the exact float64 /
complex128 bytes of every array the scenario produced (plus a few reprs).
The output must be identical on the unchanged tree and with the patch applied.
"""
import hashlib
import warnings

import numpy as np

warnings.simplefilter('ignore')

from optiland import coatings, jones, materials  # noqa: E402
from optiland.rays import (RealRays, PolarizedRays, PolarizationState,  # noqa
                           create_polarization)
from optiland.samples.simple import (Edmund_49_847, SingletStopSurf2,  # noqa
                                     CementedAchromat, AsphericSinglet)
from optiland.samples.objectives import (CookeTriplet, DoubleGauss,  # noqa
                                         ReverseTelephoto, TessarLens)
from optiland.samples.telescopes import HubbleTelescope  # noqa: E402
from optiland.samples.microscopes import UVReflectingMicroscope  # noqa: E402


def digest(*arrays):
    h = hashlib.sha1()
    for a in arrays:
        a = np.ascontiguousarray(np.asarray(a))
        h.update(str(a.dtype).encode())
        h.update(str(a.shape).encode())
        h.update(a.tobytes())
    return h.hexdigest()


def show(label, *arrays):
    print(f'{label:58s} {digest(*arrays)}')


def outcome(func, *args, **kwargs):
    try:
        return repr(func(*args, **kwargs))
    except Exception as exc:  # noqa: BLE001
        return f'{type(exc).__name__}: {exc}'


def make_rays(n, cls=RealRays, seed=0):
    rng = np.random.default_rng(seed)
    L = rng.uniform(-0.4, 0.4, n)
    M = rng.uniform(-0.4, 0.4, n)
    N = np.sqrt(1 - L**2 - M**2)
    x = rng.uniform(-1, 1, n)
    y = rng.uniform(-1, 1, n)
    z = np.zeros(n)
    w = rng.uniform(0.45, 0.7, n)
    return cls(x, y, z, L, M, N, np.ones(n), w)


# ---------------------------------------------------------------- Jones
print('# JonesFresnel, direct')
index_pairs = [(1.0, 1.5), (1.5, 1.0), (1.0, 4.0), (4.0, 1.0), (2.3, 2.3),
               (1.33, 1.52), (1.7, 1.2), (1.0, 1.0)]
aoi = np.concatenate([np.linspace(0, np.pi / 2, 181),
                      [np.arctan(1.5), np.arctan(1 / 1.5), np.arcsin(1 / 1.5),
                       np.arctan(4.0), 1e-9, np.pi / 2 - 1e-9]])
for n1, n2 in index_pairs:
    j = jones.JonesFresnel(materials.IdealMaterial(n1),
                           materials.IdealMaterial(n2))
    rays = make_rays(aoi.size)
    for reflect in (False, True):
        m = j.calculate_matrix(rays, reflect=reflect, aoi=aoi)
        show(f'fresnel n1={n1} n2={n2} reflect={reflect}', m)
        # energy balance as a number (below the critical angle)
        sel = np.sin(aoi) * n1 / n2 < 1
        show('  |s|^2,|p|^2', np.abs(m[sel, 0, 0])**2, np.abs(m[sel, 1, 1])**2)

# dispersive glasses: n depends on rays.w (array valued index ratio)
for pre, post in [('N-BK7', 'N-SF11'), ('N-SF11', 'N-BK7')]:
    j = jones.JonesFresnel(materials.Material(pre), materials.Material(post))
    rays = make_rays(aoi.size, seed=3)
    for reflect in (False, True):
        show(f'fresnel {pre}->{post} reflect={reflect}',
             j.calculate_matrix(rays, reflect=reflect, aoi=aoi))
air_glass = jones.JonesFresnel(materials.IdealMaterial(1.0),
                               materials.Material('N-BK7'))
one = make_rays(1, seed=5)
for reflect in (False, True):
    show(f'fresnel single ray reflect={reflect}',
         air_glass.calculate_matrix(one, reflect=reflect,
                                    aoi=np.array([0.3])))
    show(f'fresnel 0-d aoi reflect={reflect}',
         air_glass.calculate_matrix(one, reflect=reflect, aoi=0.3))
print('aoi=None      ', outcome(air_glass.calculate_matrix, one))
print('aoi=None refl ', outcome(air_glass.calculate_matrix, one, True))
print('bad shape     ', outcome(air_glass.calculate_matrix, make_rays(4),
                                aoi=np.zeros(3)))

print('# polarizers, retarders, diattenuators')
rays = make_rays(7)
for name in ['JonesPolarizerH', 'JonesPolarizerV', 'JonesPolarizerL45',
             'JonesPolarizerL135', 'JonesPolarizerRCP', 'JonesPolarizerLCP']:
    show(name, getattr(jones, name)().calculate_matrix(rays))
for theta in [0.0, 0.1, np.pi / 4, 1.0, np.pi / 2, -2.2, 7.5]:
    for d in [0.0, 0.3, np.pi / 2, np.pi, 2.5, -1.1]:
        show(f'retarder d={d:.3f} theta={theta:.3f}',
             jones.JonesLinearRetarder(d, theta).calculate_matrix(rays))
    show(f'qwp theta={theta:.3f}',
         jones.JonesQuarterWaveRetarder(theta).calculate_matrix(rays))
    show(f'hwp theta={theta:.3f}',
         jones.JonesHalfWaveRetarder(theta).calculate_matrix(rays))
    for tmin, tmax in [(0.0, 1.0), (0.2, 0.9), (1.0, 1.0)]:
        show(f'diattenuator {tmin} {tmax} theta={theta:.3f}',
             jones.JonesLinearDiattenuator(tmin, tmax, theta)
             .calculate_matrix(rays))

# ---------------------------------------------------------------- states
print('# polarization states')
names = ['unpolarized', 'H', 'V', 'L+45', 'L-45', 'RCP', 'LCP']
for name in names:
    s = create_polarization(name)
    print(name, repr(s), repr(s.to_dict()),
          [type(v).__name__ for v in s.to_dict().values()])
for bad in ['h', '', 'L45', 'rcp', None, 3, 1.5, ('H',), ['H'], {'H': 1},
            np.str_('V'), np.array('RCP'), np.array(['LCP']),
            np.array(['H', 'V']), b'H']:
    print('create_polarization', repr(bad), '->',
          outcome(create_polarization, bad))
arbitrary = [dict(Ex=1.0, Ey=0.0, phase_x=0.0, phase_y=0.0),
             dict(Ex=0.3, Ey=0.8, phase_x=0.2, phase_y=-1.1),
             dict(Ex=-2, Ey=5, phase_x=3, phase_y=1),
             dict(Ex=0.0, Ey=1.0, phase_x=0.7, phase_y=0.7),
             dict(Ex=1e-3, Ey=1e3, phase_x=-4.0, phase_y=9.0)]
for kw in arbitrary:
    s = PolarizationState(is_polarized=True, **kw)
    print(repr(s.to_dict()), repr(PolarizationState.from_dict(s.to_dict())))
print(outcome(PolarizationState, True, 1.0, None, 0.0, 0.0))
print(outcome(PolarizationState, False, 1.0))
print(outcome(PolarizationState, True, 0.0, 0.0, 0.0, 0.0))

all_states = ([create_polarization(n) for n in names] +
              [PolarizationState(is_polarized=True, **kw) for kw in arbitrary])

# ---------------------------------------------------------------- coatings
print('# coatings on hand made polarized rays')
rng = np.random.default_rng(11)
for n1, n2 in [(1.0, 1.5), (1.5, 1.0), (1.0, 4.0), (1.8, 1.3)]:
    mat1, mat2 = materials.IdealMaterial(n1), materials.IdealMaterial(n2)
    for reflect in (False, True):
        for state in all_states:
            rays = make_rays(40, PolarizedRays, seed=2)
            nn = rng.normal(size=(40, 3)) * 0.2 + np.array([0, 0, 1.0])
            nn /= np.linalg.norm(nn, axis=1)[:, None]
            nx, ny, nz = nn.T.copy()
            if reflect:
                rays.reflect(nx, ny, nz)
            else:
                rays.refract(nx, ny, nz, n1, n2)
            coat = coatings.FresnelCoating(mat1, mat2)
            out = coat.interact(rays, reflect=reflect, nx=nx, ny=ny, nz=nz)
            assert out is rays
            p_after = rays.p.copy()
            # a second surface with a simple coating and a parallel hit
            coatings.SimpleCoating(0.7, 0.2).interact(rays, reflect=False)
            rays.L0, rays.M0, rays.N0 = rays.L.copy(), rays.M.copy(), \
                rays.N.copy()
            rays.update()
            rays.i[::7] = 0.0
            rays.update_intensity(state)
            show(f'coating {n1}->{n2} refl={reflect} {str(state)[:18]}',
                 p_after, rays.p, rays.i, rays.L, rays.M, rays.N)
print(repr(coatings.FresnelCoating(materials.IdealMaterial(1.0),
                                   materials.IdealMaterial(1.5)).to_dict()))

# ---------------------------------------------------------------- lenses
print('# traces through sample lenses')


def trace_all(label, lens, fields, dists, with_fresnel=True, simple=None):
    if with_fresnel:
        lens.surface_group.set_fresnel_coatings()
    if simple is not None:
        k, coat = simple
        lens.surface_group.surfaces[k].coating = coat
    wavelengths = [w.value for w in lens.wavelengths.wavelengths]
    for state in all_states:
        lens.set_polarization(state)
        parts = []
        for (Hx, Hy) in fields:
            for wl in (wavelengths[0], wavelengths[-1]):
                for dist, num in dists:
                    r = lens.trace(Hx, Hy, wl, num, dist)
                    parts += [r.x, r.y, r.z, r.L, r.M, r.N, r.i, r.opd, r.p,
                              lens.image_surface.intensity]
                    if state.is_polarized:
                        E0 = r._get_3d_electric_field(state)
                        E1 = r.get_output_field(E0)
                        k1 = np.stack((r.L, r.M, r.N), axis=1)
                        parts += [E0, E1, np.sum(E1 * k1, axis=1)]
                r = lens.trace_generic(Hx, Hy, 0.3, -0.45, wl)
                parts += [r.i, r.p]
                r = lens.trace_generic(np.array([0.0, Hx]),
                                       np.array([Hy, 0.0]),
                                       np.array([0.0, 0.5]),
                                       np.array([1.0, -0.2]), wl)
                parts += [r.i, r.p]
        show(f'{label} {str(state)[:30]}', *parts)


dists = [('hexapolar', 3), ('line_y', 5), ('uniform', 5)]
fields = [(0.0, 0.0), (0.0, 0.7), (0.0, 1.0), (0.5, -0.6)]
trace_all('Edmund_49_847', Edmund_49_847(), fields, dists)
trace_all('SingletStopSurf2 uncoated', SingletStopSurf2(), fields, dists,
          with_fresnel=False)
trace_all('CementedAchromat', CementedAchromat(), fields, dists)
trace_all('AsphericSinglet + simple', AsphericSinglet(), fields, dists,
          simple=(2, coatings.SimpleCoating(0.9, 0.05)))
trace_all('CookeTriplet', CookeTriplet(), fields, dists)
trace_all('DoubleGauss', DoubleGauss(), fields, dists)
trace_all('ReverseTelephoto', ReverseTelephoto(), fields, dists)
trace_all('TessarLens simple only', TessarLens(), fields, dists,
          with_fresnel=False, simple=(1, coatings.SimpleCoating(0.6, 0.3)))
trace_all('HubbleTelescope', HubbleTelescope(), fields[:2], dists)
trace_all('UVReflectingMicroscope', UVReflectingMicroscope(), fields[:3],
          dists)

# polarization ignored although the surfaces need it
lens = CookeTriplet()
lens.surface_group.set_fresnel_coatings()
print('ignore + fresnel:', outcome(lens.trace, 0, 0, 0.55, 3, 'hexapolar'))
lens = CookeTriplet()
r = lens.trace(0, 1, 0.55, 3, 'hexapolar')
print(type(r).__name__, digest(r.i, r.x, r.y))

# rays launched along the x axis have no transverse frame
pr = PolarizedRays(np.zeros(2), np.zeros(2), np.zeros(2), np.ones(2),
                   np.zeros(2), np.zeros(2), np.ones(2), np.ones(2))
for state in all_states[:3]:
    print('k || x:', outcome(pr.update_intensity, state))

# ------------------------------------------------- create_polarization
print('# create_polarization, comparison protocol')
import enum  # noqa: E402


class Spy:
    """Records every == comparison made against it."""

    def __init__(self, match):
        self.match = match
        self.seen = []

    def __eq__(self, other):
        self.seen.append(other)
        return other == self.match

    __hash__ = None


for match in names + ['nothing']:
    spy = Spy(match)
    print(match, outcome(create_polarization, spy), spy.seen)


class Shout(str):
    def __eq__(self, other):
        return str.__eq__(self.upper(), other)

    def __hash__(self):
        return 7


class Pol(str, enum.Enum):
    HORIZONTAL = 'H'
    LEFT = 'LCP'
    NONE = 'unpolarized'
    OTHER = 'other'


for value in [Shout('rcp'), Shout('l+45'), Shout('unpolarized'), Pol.HORIZONTAL,
              Pol.LEFT, Pol.NONE, Pol.OTHER, np.array(['unpolarized']),
              np.array([['L-45']]), np.array([], dtype=str), 'H ', ' V']:
    print(repr(value), '->', outcome(create_polarization, value))

for name in names[1:]:
    a, b = create_polarization(name), create_polarization(name)
    a.Ex = 5.0
    d = b.to_dict()
    print(name, a is b, [v.hex() for v in list(d.values())[1:]],
          [type(v).__name__ for v in d.values()])

"""Equivalence digest for C01-tw-4 (search loops -> next()/any()/comprehension).

Touches SurfaceGroup.stop_index, SurfaceGroup.uses_polarization,
WavelengthGroup.primary_index, Optic.object_surface and Optic.n.  The script
drives them through the public API: histories of add_surface / remove_surface
with all kinds of is_stop values, add_wavelength histories (zero, one, many
primaries, flags cleared by hand), Fresnel / polarised coatings, lenses with
no / several / late object surfaces, n() for 'primary', scalars and arrays,
and the paraxial quantities and ray traces of all sample lenses (which depend
on stop_index, primary_index and uses_polarization).
"""
import hashlib
import inspect
import warnings

import numpy as np

import optiland.samples.eyepieces as s_eye
import optiland.samples.infrared as s_ir
import optiland.samples.lithography as s_lith
import optiland.samples.microscopes as s_mic
import optiland.samples.objectives as s_obj
import optiland.samples.simple as s_simple
import optiland.samples.telescopes as s_tel
from optiland.coatings import SimpleCoating
from optiland.coordinate_system import CoordinateSystem
from optiland.geometries import Plane
from optiland.materials import IdealMaterial
from optiland.optic import Optic
from optiland.rays import PolarizationState
from optiland.surfaces.object_surface import ObjectSurface
from optiland.surfaces.standard_surface import Surface
from optiland.wavelength import WavelengthGroup

warnings.filterwarnings('ignore')
np.seterr(all='ignore')

SHA = hashlib.sha1()


def arr(v):
    a = np.asarray(v, dtype=np.float64)
    SHA.update(a.tobytes())
    return f'{a.shape}:{hashlib.sha1(a.tobytes()).hexdigest()[:12]}'


def attempt(tag, fn):
    try:
        r = fn()
        print(tag, 'ok', type(r).__name__, repr(r))
    except Exception as e:  # noqa
        print(tag, 'EXC', type(e).__name__, str(e))


def stops(tag, lens):
    sg = lens.surface_group
    idx = sg.stop_index
    print(tag, 'stop_index', type(idx).__name__, repr(idx),
          'flags', [repr(s.is_stop) for s in sg.surfaces],
          'uses_polarization', repr(sg.uses_polarization),
          'object_surface',
          None if lens.object_surface is None
          else sg.surfaces.index(lens.object_surface))


def waves(tag, group):
    idx = group.primary_index
    print(tag, 'primary_index', type(idx).__name__, repr(idx),
          'flags', [repr(w.is_primary) for w in group.wavelengths],
          'values', [repr(w.value) for w in group.wavelengths])
    attempt(tag + ' primary_wavelength',
            lambda: group.primary_wavelength.value)


# 1. sample lenses: everything downstream of the touched properties ----------
for module in (s_simple, s_obj, s_eye, s_ir, s_lith, s_mic, s_tel):
    for name, cls in sorted(inspect.getmembers(module, inspect.isclass)):
        if cls.__module__ != module.__name__:
            continue
        lens = cls()
        stops(f'sample {name}', lens)
        waves(f'sample {name}', lens.wavelengths)
        print('    n primary', arr(lens.n()), str(lens.n().dtype),
              lens.n().shape)
        print('    n 0.6', arr(lens.n(0.6)), 'n np scalar',
              arr(lens.n(np.float64(0.5))))
        attempt('    n array', lambda: lens.n(np.array([0.5, 0.6])))
        ya, ua = lens.paraxial.marginal_ray()
        yb, ub = lens.paraxial.chief_ray()
        print('    paraxial', arr(ya), arr(ua), arr(yb), arr(ub),
              repr(float(lens.paraxial.f2())),
              repr(float(lens.paraxial.EPL())),
              repr(float(lens.paraxial.XPL())),
              repr(float(lens.paraxial.FNO())))
        rays = lens.trace(Hx=0, Hy=1, wavelength=lens.primary_wavelength,
                          num_rays=4, distribution='hexapolar')
        print('    trace', type(rays).__name__, arr(rays.x), arr(rays.y),
              arr(rays.i))
        # polarised trace (Fresnel coatings everywhere)
        lens.surface_group.set_fresnel_coatings()
        lens.set_polarization(PolarizationState(is_polarized=False))
        stops(f'sample {name} fresnel', lens)
        rays = lens.trace(Hx=0, Hy=0.5, wavelength=lens.primary_wavelength,
                          num_rays=3, distribution='hexapolar')
        print('    polarized trace', type(rays).__name__, arr(rays.x),
              arr(rays.y), arr(rays.i))

# 2. stop histories ---------------------------------------------------------------
STOP_VALUES = [False, True, 0, 1, None, 'yes', '', np.bool_(True),
               np.bool_(False), 2.5, [], [0], np.float64(0.0), np.int64(3)]
rng = np.random.default_rng(4242)
for trial in range(12):
    lens = Optic()
    stops(f'trial {trial} empty', lens)
    n_surf = int(rng.integers(1, 13))
    for k in range(n_surf):
        flag = STOP_VALUES[int(rng.integers(0, len(STOP_VALUES)))]
        lens.add_surface(index=k, thickness=float(rng.uniform(0.5, 5)),
                         is_stop=flag,
                         material=['air', 'N-BK7', 'mirror'][k % 3]
                         if k else 'air')
        stops(f'trial {trial} add {k} is_stop={flag!r}', lens)
    # insertions in the middle and removals (stop clause only)
    for step in range(6):
        n = lens.surface_group.num_surfaces
        if rng.random() < 0.5 and n > 2:
            k = int(rng.integers(1, n))
            lens.surface_group.remove_surface(k)
            stops(f'trial {trial} remove {k}', lens)
        else:
            k = int(rng.integers(1, n + 1))
            flag = STOP_VALUES[int(rng.integers(0, len(STOP_VALUES)))]
            lens.add_surface(index=k, thickness=1.0, is_stop=flag)
            stops(f'trial {trial} insert {k} is_stop={flag!r}', lens)
    # flags rewritten by hand: several stops, then none
    for s in lens.surface_group.surfaces[1::2]:
        s.is_stop = True
    stops(f'trial {trial} several stops', lens)
    for s in lens.surface_group.surfaces:
        s.is_stop = False
    stops(f'trial {trial} no stop', lens)

# truth value that cannot be evaluated
lens = Optic()
lens.add_surface(index=0, thickness=1.0)
lens.add_surface(index=1, thickness=1.0)
lens.surface_group.surfaces[1].is_stop = np.array([True, False])
attempt('ambiguous is_stop', lambda: lens.surface_group.stop_index)
lens.surface_group.surfaces[1].is_stop = np.array([True])
attempt('1-element array is_stop', lambda: lens.surface_group.stop_index)
del lens.surface_group.surfaces[1].is_stop
attempt('missing is_stop', lambda: lens.surface_group.stop_index)

# 3. object surface variants ----------------------------------------------------
air = IdealMaterial(n=1.0, k=0.0)
glass = IdealMaterial(n=1.5, k=0.0)
lens = Optic()
print('empty lens object_surface', lens.object_surface)
ready = Surface(Plane(CoordinateSystem(z=0.0)), air, glass, is_stop=True)
lens.add_surface(new_surface=ready)
stops('ready-made first, no object', lens)
lens.add_surface(new_surface=ObjectSurface(Plane(CoordinateSystem(z=5.0)),
                                           air))
stops('object surface appended late', lens)
lens.add_surface(new_surface=ObjectSurface(Plane(CoordinateSystem(z=9.0)),
                                           air), index=0)
stops('two object surfaces', lens)
print('first object is index 0:',
      lens.object_surface is lens.surface_group.surfaces[0])
attempt('n() without wavelengths', lambda: lens.n())
print('n(0.5)', arr(lens.n(0.5)), lens.n(0.5).tolist())
print('n of empty lens', Optic().n(0.5).shape, Optic().n(0.5).dtype)
del lens.surface_group.surfaces[1].material_post
attempt('n() with broken surface', lambda: lens.n(0.5))

# 4. coatings -------------------------------------------------------------------
lens = Optic()
lens.add_surface(index=0, thickness=np.inf)
lens.add_surface(index=1, thickness=2.0, material='N-BK7', radius=30.0,
                 is_stop=True, coating=SimpleCoating(0.9, 0.1))
stops('simple coating', lens)
lens.add_surface(index=2, thickness=10.0, coating='fresnel')
stops('fresnel coating on surface 2', lens)
lens.add_surface(index=3)
stops('image added', lens)
lens.surface_group.surfaces[2].coating = None
stops('fresnel removed', lens)
del lens.surface_group.surfaces[3].coating
attempt('missing coating attribute',
        lambda: lens.surface_group.uses_polarization)

# 5. wavelength histories -----------------------------------------------------------
PRIMARY_VALUES = [False, True, 0, 1, None, 'p', '', np.bool_(True), [], 2]
for trial in range(10):
    group = WavelengthGroup()
    waves(f'wl trial {trial} empty', group)
    for k in range(int(rng.integers(1, 7))):
        flag = PRIMARY_VALUES[int(rng.integers(0, len(PRIMARY_VALUES)))]
        unit = ['um', 'nm', 'mm', 'UM'][int(rng.integers(0, 4))]
        group.add_wavelength(float(rng.uniform(0.4, 0.7)), flag, unit)
        waves(f'wl trial {trial} add {k} primary={flag!r} unit={unit}', group)
    for w in group.wavelengths[::2]:
        w.is_primary = True
    waves(f'wl trial {trial} several primaries', group)
    for w in group.wavelengths:
        w.is_primary = False
    waves(f'wl trial {trial} no primary', group)
    rebuilt = WavelengthGroup.from_dict(group.to_dict())
    waves(f'wl trial {trial} from_dict', rebuilt)

lens = Optic()
for k, (v, p) in enumerate([(0.45, False), (0.55, False), (0.65, True),
                            (0.75, False), (0.5, True)]):
    lens.add_wavelength(v, is_primary=p)
    print('optic add_wavelength', k, repr(lens.wavelengths.primary_index),
          repr(lens.primary_wavelength))
group = WavelengthGroup()
group.add_wavelength(0.5, True)
group.wavelengths[0].is_primary = np.array([True, True])
attempt('ambiguous is_primary', lambda: group.primary_index)
del group.wavelengths[0].is_primary
attempt('missing is_primary', lambda: group.primary_index)

print('sha1', SHA.hexdigest())

"""Equivalence digest for the pupil distributions (optiland.distribution).

For every named distribution, many ray counts and vignetting factors, prints
the number of points, the largest radius and the sha1 of the exact float64
bytes of the x and y arrays; then traces several lenses with every named
distribution through the public Optic.trace and hashes all ray attributes.
"""
import hashlib
import warnings

import numpy as np

from optiland import distribution as dist_module
from optiland.distribution import create_distribution
from optiland.samples.simple import Edmund_49_847, SingletStopSurf2
from optiland.samples.objectives import CookeTriplet, ReverseTelephoto
from optiland.samples.lithography import UVProjectionLens

warnings.simplefilter('ignore')

NAMES = ['line_x', 'line_y', 'positive_line_x', 'positive_line_y', 'uniform',
         'hexapolar', 'cross', 'ring']
COUNTS = [0, 1, 2, 3, 4, 5, 6, 7, 8, 11, 16, 25, 32, 64, True, np.int64(9),
          -1, -2, 2.5, None, '3']
VIGS = [None, (0.0, 0.0), (0.1, 0.25), (1.0, 0.5), (-0.2, 0.0),
        (np.float64(0.3), np.array(0.05))]


def sha(*arrays):
    h = hashlib.sha1()
    meta = []
    for a in arrays:
        a = np.asarray(a)
        meta.append('%s:%s' % (a.dtype, a.shape))
        h.update(np.ascontiguousarray(a).tobytes())
    return h.hexdigest() + ' ' + ' '.join(meta)


def describe(d):
    x, y = d.x, d.y
    out = [sha(x, y), 'n=%d' % np.size(x),
           'distinct=%s' % (x is not y and not np.shares_memory(x, y))]
    if np.size(x):
        out.append('rmax=%r' % float(np.max(np.sqrt(x**2 + y**2))))
    try:
        out.append('dx=%r dy=%r' % (float(d.dx), float(d.dy)))
    except Exception as exc:  # noqa
        out.append('dxdy EXC %s' % type(exc).__name__)
    out.append('attrs=%s' % sorted(vars(d)))
    return ' '.join(out)


def attempt(label, func):
    try:
        out = func()
    except Exception as exc:  # noqa
        out = 'EXC %s: %s' % (type(exc).__name__, exc)
    print(label, '->', out)


def generate(name, n, vig):
    d = create_distribution(name)
    if vig is None:
        d.generate_points(n)
    else:
        d.generate_points(n, vx=vig[0], vy=vig[1])
    return describe(d)


for name in NAMES:
    for n in COUNTS:
        for vig in VIGS:
            attempt('%s n=%r vig=%r' % (name, n, vig),
                    lambda: generate(name, n, vig))

# classes used directly, defaults, repeated generation on the same instance
attempt('hex default', lambda: (lambda d: (d.generate_points(), describe(d))[1])
        (dist_module.HexagonalDistribution()))
attempt('hex kw', lambda: (lambda d: (d.generate_points(num_rings=4, vy=0.5),
                                      describe(d))[1])
        (dist_module.HexagonalDistribution()))
for flag in (False, True, 0, 1, 'yes', None):
    for cls in (dist_module.LineXDistribution, dist_module.LineYDistribution):
        def twice(cls=cls, flag=flag):
            d = cls(positive_only=flag)
            d.generate_points(5, 0.1, 0.2)
            first = describe(d)
            d.generate_points(4)
            return first + ' | ' + describe(d) + ' flag=%r' % d.positive_only
        attempt('%s positive_only=%r' % (cls.__name__, flag), twice)
attempt('LineX array flag', lambda: (lambda d: (d.generate_points(3),
                                                 describe(d))[1])
        (dist_module.LineXDistribution(positive_only=np.array([1, 0]))))
for sym in (False, True):
    for rings in (1, 2, 3, 4, 5, 6, 7, 0):
        def gq(sym=sym, rings=rings):
            d = dist_module.GaussianQuadrature(is_symmetric=sym)
            d.generate_points(rings, 0.1, 0.2)
            return describe(d) + ' w=' + sha(d.get_weights(rings))
        attempt('gq sym=%r rings=%d' % (sym, rings), gq)
for seed in (0, 7):
    def rnd(seed=seed):
        d = dist_module.RandomDistribution(seed=seed)
        d.generate_points(50, 0.1, 0.3)
        return describe(d)
    attempt('random seed=%d' % seed, rnd)
attempt('random by name', lambda: sorted(vars(create_distribution('random'))))
for bad in ('hexagonal', '', None, 3, ('ring',), ['ring']):
    attempt('create %r' % (bad,), lambda: type(create_distribution(bad)))

RAY_ATTRS = ('x', 'y', 'z', 'L', 'M', 'N', 'i', 'w', 'opd')


def ray_digest(rays):
    return sha(*[getattr(rays, a) for a in RAY_ATTRS]) + ' ' + \
        type(rays).__name__


def vignetted_triplet():
    lens = CookeTriplet()
    for f, (vx, vy) in zip(lens.fields.fields, ((0, 0), (0.1, 0.2),
                                                 (0.25, 0.4))):
        f.vx, f.vy = vx, vy
    return lens


for lens_name, factory in (('Edmund', Edmund_49_847),
                           ('SingletStop2', SingletStopSurf2),
                           ('CookeTriplet', CookeTriplet),
                           ('CookeTriplet-vig', vignetted_triplet),
                           ('ReverseTelephoto', ReverseTelephoto),
                           ('UVProjection', UVProjectionLens)):
    lens = factory()
    wl = lens.primary_wavelength
    for Hy in (0.0, 0.7, -1.0):
        for name in NAMES:
            for n in (1, 3, 6, 12):
                attempt('%s Hy=%g %s n=%d' % (lens_name, Hy, name, n),
                        lambda: ray_digest(lens.trace(0.0, Hy, wl, n, name)))
        # distribution instances handed to trace
        for cls, n in ((dist_module.HexagonalDistribution, 5),
                       (dist_module.CrossDistribution, 9),
                       (dist_module.UniformDistribution, 10)):
            def with_instance(cls=cls, n=n):
                d = cls()
                d.generate_points(n, 0.05, 0.1)
                return ray_digest(lens.trace(0.0, Hy, wl, n, d))
            attempt('%s Hy=%g instance %s' % (lens_name, Hy, cls.__name__),
                    with_instance)

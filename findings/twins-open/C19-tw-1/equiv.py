"""Equivalence digest for the save / reload machinery of optiland.

Builds a varied set of lenses (library samples plus hand-made systems that
exercise decentred / tilted surfaces, physical apertures, coatings, scatter
models, mirrors, aspheres, pickups, solves, polarization and edit histories),
round-trips each of them through Optic.to_dict / Optic.from_dict and through
save_optiland_file / load_optiland_file, and prints exact digests (sha1 of the
float64 bytes, sha1 of the JSON text) of everything the property talks about.

The output must be byte-identical on the unchanged tree and on the patched
tree.
"""
import hashlib
import json
import os
import tempfile
import warnings

import numpy as np

warnings.filterwarnings('ignore')

from optiland.optic import Optic  # noqa: E402
from optiland.fileio import load_optiland_file, save_optiland_file  # noqa
from optiland.fileio.optiland_handler import (  # noqa: E402
    load_obj_from_json, save_obj_to_json)
from optiland.surfaces.surface_group import SurfaceGroup  # noqa: E402
from optiland.surfaces.standard_surface import Surface  # noqa: E402
from optiland.coatings import SimpleCoating  # noqa: E402
from optiland.scatter import LambertianBSDF, GaussianBSDF  # noqa: E402
from optiland.physical_apertures import RadialAperture  # noqa: E402
from optiland.materials import (  # noqa: E402
    IdealMaterial, AbbeMaterial, Material)
from optiland.rays import PolarizationState  # noqa: E402
from optiland.fields import FieldGroup  # noqa: E402
from optiland.wavelength import WavelengthGroup  # noqa: E402
from optiland.samples.objectives import (  # noqa: E402
    CookeTriplet, DoubleGauss, ReverseTelephoto, HeliarLens, TessarLens,
    TripletTelescopeObjective)
from optiland.samples.simple import (  # noqa: E402
    Edmund_49_847, AsphericSinglet, CementedAchromat, SingletStopSurf2)
from optiland.samples.telescopes import HubbleTelescope  # noqa: E402
from optiland.samples.microscopes import UVReflectingMicroscope  # noqa: E402
from optiland.samples.infrared import InfraredTriplet  # noqa: E402
from optiland.samples.eyepieces import EyepieceErfle  # noqa: E402


def sha(*arrays):
    h = hashlib.sha1()
    for a in arrays:
        h.update(np.ascontiguousarray(np.asarray(a, dtype=np.float64))
                 .tobytes())
    return h.hexdigest()[:16]


def text_sha(text):
    return hashlib.sha1(text.encode()).hexdigest()[:16]


# --------------------------------------------------------------------------
# lenses
# --------------------------------------------------------------------------
def custom_decentered():
    lens = Optic()
    lens.add_surface(index=0, thickness=np.inf)
    lens.add_surface(index=1, radius=40.0, thickness=5.0, material='N-BK7',
                     is_stop=True, dx=0.2, dy=-0.1, rx=0.01, ry=-0.02,
                     aperture=RadialAperture(r_max=9.0, r_min=0.5),
                     coating=SimpleCoating(0.9, 0.05))
    lens.add_surface(index=2, radius=-60.0, conic=-0.5, thickness=3.0,
                     material=IdealMaterial(n=1.6, k=0.0))
    lens.add_surface(index=3, radius=-35.0, thickness=2.0,
                     material=AbbeMaterial(1.55, 60.0))
    lens.add_surface(index=4, thickness=45.0,
                     material=('SF6', 'schott'))
    lens.add_surface(index=5, radius=200.0, thickness=10.0)
    lens.add_surface(index=6)
    lens.set_aperture('EPD', 12.0)
    lens.set_field_type('angle')
    lens.add_field(y=0)
    lens.add_field(y=3.0, vx=0.05, vy=0.1)
    lens.add_field(y=5.0, vx=0.1, vy=0.2)
    lens.add_wavelength(0.4861)
    lens.add_wavelength(587.6, is_primary=True, unit='nm')
    lens.add_wavelength(0.6563)
    return lens


def custom_polarized():
    lens = Optic()
    lens.add_surface(index=0, thickness=np.inf)
    lens.add_surface(index=1, radius=30.0, thickness=4.0, material='SF6',
                     is_stop=True, coating='fresnel')
    lens.add_surface(index=2, radius=-80.0, thickness=20.0,
                     coating='fresnel')
    lens.add_surface(index=3, radius=-100.0, thickness=-15.0,
                     material='mirror')
    lens.add_surface(index=4)
    lens.set_aperture('imageFNO', 6.0)
    lens.set_field_type('angle')
    lens.add_field(y=0)
    lens.add_field(y=1.5)
    lens.add_wavelength(0.55, is_primary=True)
    lens.set_polarization(PolarizationState(True, 1.0, 0.5, 0.0, 0.3))
    return lens


def custom_unpolarized_fresnel():
    lens = CookeTriplet()
    lens.surface_group.set_fresnel_coatings()
    lens.set_polarization(PolarizationState(False))
    return lens


def custom_scatter():
    lens = Optic()
    lens.add_surface(index=0, thickness=100.0)
    lens.add_surface(index=1, radius=50.0, thickness=4.0, material='N-BK7',
                     is_stop=True, bsdf=LambertianBSDF())
    lens.add_surface(index=2, radius=-50.0, thickness=60.0,
                     bsdf=GaussianBSDF(0.02))
    lens.add_surface(index=3)
    lens.set_aperture('objectNA', 0.05)
    lens.set_field_type('object_height')
    lens.add_field(y=0)
    lens.add_field(y=2)
    lens.add_wavelength(0.6328, is_primary=True)
    lens.obj_space_telecentric = True
    return lens


def custom_pickups_solves():
    lens = CookeTriplet()
    lens.pickups.add(1, 'radius', 6, scale=-1, offset=0.25)
    lens.pickups.add(1, 'thickness', 5, scale=0.5, offset=0.1)
    lens.pickups.add(2, 'conic', 3)
    lens.solves.add('marginal_ray_height', 6, 0.0)
    lens.update()
    return lens


def custom_numpy_inputs():
    # numpy scalars reach the dictionary through the public API
    lens = Optic()
    lens.add_surface(index=0, thickness=np.inf)
    for k, radius in enumerate(np.array([25.0, -25.0])):
        lens.add_surface(index=k + 1, radius=radius,
                         thickness=np.float64(3.0 + 30 * k),
                         material='N-BK7' if k == 0 else 'air',
                         is_stop=(np.int64(k) == 0))
    lens.add_surface(index=3)
    lens.set_aperture('EPD', np.float32(5.0))
    lens.set_field_type('angle')
    for y in np.arange(0, 3, dtype=np.int64):
        lens.add_field(y=y)
    lens.add_wavelength(np.float64(0.55), is_primary=True)
    return lens


def edited(lens_cls):
    lens = lens_cls()
    lens.set_thickness(lens.surface_group.get_thickness(2)[0] * 1.1, 2)
    lens.set_radius(lens.surface_group.radii[1] * 0.97, 1)
    lens.set_conic(-0.3, 1)
    lens.scale_system(1.7)
    lens.set_index(1.62, 1)
    lens.update_paraxial()
    return lens


def removed_surface():
    lens = DoubleGauss()
    lens.surface_group.remove_surface(3)
    return lens


LENSES = [
    ('CookeTriplet', CookeTriplet),
    ('DoubleGauss', DoubleGauss),
    ('ReverseTelephoto', ReverseTelephoto),
    ('HeliarLens', HeliarLens),
    ('TessarLens', TessarLens),
    ('TripletTelescopeObjective', TripletTelescopeObjective),
    ('Edmund_49_847', Edmund_49_847),
    ('AsphericSinglet', AsphericSinglet),
    ('CementedAchromat', CementedAchromat),
    ('SingletStopSurf2', SingletStopSurf2),
    ('HubbleTelescope', HubbleTelescope),
    ('UVReflectingMicroscope', UVReflectingMicroscope),
    ('InfraredTriplet', InfraredTriplet),
    ('EyepieceErfle', EyepieceErfle),
    ('custom_decentered', custom_decentered),
    ('custom_polarized', custom_polarized),
    ('custom_unpolarized_fresnel', custom_unpolarized_fresnel),
    ('custom_scatter', custom_scatter),
    ('custom_pickups_solves', custom_pickups_solves),
    ('custom_numpy_inputs', custom_numpy_inputs),
    ('edited_CookeTriplet', lambda: edited(CookeTriplet)),
    ('edited_TessarLens', lambda: edited(TessarLens)),
    ('removed_surface', removed_surface),
]


# --------------------------------------------------------------------------
# digests
# --------------------------------------------------------------------------
def has_scatter(lens):
    return any(s.bsdf for s in lens.surface_group.surfaces)


def trace_digest(lens):
    if has_scatter(lens):
        return 'scatter(random)-not-traced'
    out = []
    hy_max = 1.0
    waves = lens.wavelengths.get_wavelengths()
    for Hx, Hy in [(0.0, 0.0), (0.0, 0.7 * hy_max), (0.0, hy_max)]:
        for w in (waves[0], waves[-1]):
            try:
                rays = lens.trace(Hx, Hy, w, num_rays=4,
                                  distribution='hexapolar')
                sg = lens.surface_group
                out.append(sha(sg.x, sg.y, sg.z, sg.L, sg.M, sg.N, sg.opd,
                               sg.intensity, rays.x, rays.y, rays.z, rays.L,
                               rays.M, rays.N, rays.opd, rays.i))
            except Exception as err:  # same exception before / after
                out.append(f'{type(err).__name__}:{err}')
    try:
        Px = np.linspace(-1, 1, 5)
        rays = lens.trace_generic(0.0, 0.5, Px, Px[::-1] * 0.5, waves[0])
        out.append(sha(rays.x, rays.y, rays.z, rays.L, rays.M, rays.N,
                       rays.opd, rays.i))
    except Exception as err:
        out.append(f'{type(err).__name__}:{err}')
    return text_sha('|'.join(out))


def paraxial_digest(lens):
    vals = []
    for name in ('f1', 'f2', 'F1', 'F2', 'P1', 'P2', 'N1', 'N2', 'EPL', 'EPD',
                 'XPL', 'XPD', 'FNO', 'magnification', 'invariant'):
        try:
            vals.append(sha(getattr(lens.paraxial, name)()))
        except Exception as err:
            vals.append(f'{name}:{type(err).__name__}')
    for name in ('marginal_ray', 'chief_ray'):
        try:
            y, u = getattr(lens.paraxial, name)()
            vals.append(sha(y, u))
        except Exception as err:
            vals.append(f'{name}:{type(err).__name__}')
    return text_sha('|'.join(vals))


def sharing_digest(lens):
    """Which media objects are shared between neighbouring surfaces."""
    surfs = lens.surface_group.surfaces
    bits = []
    for prev, surf in zip(surfs[:-1], surfs[1:]):
        bits.append('1' if surf.material_pre is prev.material_post else '0')
        bits.append('1' if surf.material_post is surf.material_pre else '0')
    return ''.join(bits)


def structure_digest(lens):
    surfs = lens.surface_group.surfaces
    parts = [type(lens).__name__, type(lens.surface_group).__name__]
    for s in surfs:
        parts.append('/'.join([
            type(s).__name__, type(s.geometry).__name__,
            type(s.material_pre).__name__, type(s.material_post).__name__,
            type(s.aperture).__name__, type(s.coating).__name__,
            type(s.bsdf).__name__, repr(s.is_stop), repr(s.is_reflective),
            repr(s.semi_aperture)]))
    parts.append(type(lens.polarization).__name__)
    parts.append(repr(lens.field_type))
    parts.append(repr(lens.obj_space_telecentric))
    parts.append(repr(lens.fields.telecentric))
    parts.append(repr(len(lens.pickups)))
    parts.append(repr(len(lens.solves)))
    parts.append(repr(lens.paraxial.optic is lens))
    parts.append(repr(lens.aberrations.optic is lens))
    parts.append(repr(lens.ray_generator.optic is lens))
    parts.append(repr(lens.pickups.optic is lens))
    parts.append(repr(lens.solves.optic is lens))
    parts.append(repr(sorted(k for k in vars(lens))))
    return text_sha('|'.join(parts))


def dump(d):
    def plain(v):
        if isinstance(v, np.generic):
            return ('np', type(v).__name__, v.item())
        if isinstance(v, np.ndarray):
            return ('nd', v.tolist())
        raise TypeError(type(v).__name__)
    return json.dumps(d, default=plain)   # keeps key insertion order


def lens_report(name, make):
    lens = make()
    d = lens.to_dict()
    line = [name]
    line.append('keys=' + ','.join(d.keys()))
    line.append('dict=' + text_sha(dump(d)))
    line.append('sh0=' + sharing_digest(lens))
    line.append('st0=' + structure_digest(lens))

    again = Optic.from_dict(d)
    d2 = again.to_dict()
    line.append('dict2=' + text_sha(dump(d2)))
    line.append('same=' + repr(d == d2))
    line.append('sh1=' + sharing_digest(again))
    line.append('st1=' + structure_digest(again))

    with tempfile.TemporaryDirectory() as tmp:
        path = os.path.join(tmp, 'lens.json')
        save_optiland_file(lens, path)
        with open(path) as f:
            text = f.read()
        line.append('file=' + text_sha(text))
        loaded = load_optiland_file(path)
        d3 = loaded.to_dict()
        line.append('dict3=' + text_sha(dump(d3)))
        line.append('sh2=' + sharing_digest(loaded))
        line.append('st2=' + structure_digest(loaded))
        # saving the reloaded lens gives the same file
        path2 = os.path.join(tmp, 'lens2.json')
        save_obj_to_json(loaded, path2)
        with open(path2) as f:
            line.append('file2=' + text_sha(f.read()))
        reloaded = load_obj_from_json(Optic, path2)
        line.append('dict4=' + text_sha(dump(reloaded.to_dict())))

    for tag, obj in (('orig', lens), ('dict', again), ('json', loaded)):
        line.append(f'par_{tag}=' + paraxial_digest(obj))
        line.append(f'ray_{tag}=' + trace_digest(obj))

    # the reloaded lens stays editable and serialisable
    try:
        again.set_thickness(1.2345, 1)
        again.set_radius(77.0, 1)
        again.update()
        line.append('edit=' + text_sha(dump(again.to_dict())))
        line.append('editsh=' + sharing_digest(again))
        line.append('editray=' + trace_digest(again))
    except Exception as err:
        line.append(f'edit={type(err).__name__}:{err}')
    return ' '.join(line)


def error_report():
    """Exceptions of the (de)serialisers on malformed input."""
    out = []
    good = CookeTriplet().to_dict()

    def attempt(label, func):
        try:
            func()
            out.append(f'{label}: ok')
        except Exception as err:
            out.append(f'{label}: {type(err).__name__}: {err}')

    for key in list(good.keys()):
        bad = {k: v for k, v in good.items() if k != key}
        attempt(f'optic-missing-{key}', lambda: Optic.from_dict(bad))
    for key in ('polarization',):
        bad = json.loads(json.dumps(good))
        del bad['wavelengths'][key]
        attempt(f'optic-missing-wavelengths.{key}',
                lambda: Optic.from_dict(bad))
    for key in ('field_type', 'object_space_telecentric', 'telecentric',
                'fields'):
        bad = json.loads(json.dumps(good))
        del bad['fields'][key]
        attempt(f'optic-missing-fields.{key}', lambda: Optic.from_dict(bad))
    bad = json.loads(json.dumps(good))
    bad['aperture'] = None
    attempt('optic-aperture-none',
            lambda: out.append(repr(Optic.from_dict(bad).aperture)))
    bad = json.loads(json.dumps(good))
    bad['aperture'] = {}
    attempt('optic-aperture-empty',
            lambda: out.append(repr(Optic.from_dict(bad).aperture)))

    surf = good['surface_group']['surfaces'][1]
    for key in list(surf.keys()):
        bad = {k: v for k, v in surf.items() if k != key}
        attempt(f'surface-missing-{key}', lambda: Surface.from_dict(bad))
    for key in ('aperture', 'coating', 'bsdf'):
        for value in ({}, 0, '', []):
            bad = dict(surf)
            bad[key] = value
            attempt(f'surface-{key}-falsy-{value!r}',
                    lambda: out.append(
                        repr(getattr(Surface.from_dict(bad), key))))
        bad = dict(surf)
        bad[key] = {'type': 'NoSuchThing'}
        attempt(f'surface-{key}-unknown', lambda: Surface.from_dict(bad))
    bad = dict(surf)
    bad['type'] = 'NoSuchSurface'
    attempt('surface-unknown-type',
            lambda: out.append(type(Surface.from_dict(bad)).__name__))
    obj = good['surface_group']['surfaces'][0]
    for key in list(obj.keys()):
        bad = {k: v for k, v in obj.items() if k != key}
        attempt(f'object-missing-{key}', lambda: Surface.from_dict(bad))

    attempt('group-missing-surfaces', lambda: SurfaceGroup.from_dict({}))
    attempt('group-empty', lambda: out.append(
        repr(SurfaceGroup.from_dict({'surfaces': []}).surfaces)))
    attempt('group-single', lambda: out.append(
        repr(len(SurfaceGroup.from_dict({'surfaces': [obj]}).surfaces))))
    attempt('fields-missing', lambda: FieldGroup.from_dict({}))
    attempt('waves-missing', lambda: WavelengthGroup.from_dict({}))

    # file handler
    with tempfile.TemporaryDirectory() as tmp:
        attempt('load-missing-file', lambda: load_optiland_file(
            os.path.join(tmp, 'nope.json').replace(tmp, '<tmp>')))
        path = os.path.join(tmp, 'keep.json')
        with open(path, 'w') as f:
            f.write('previous content')

        class Bad:
            def to_dict(self):
                return {'a': 1, 'b': {1, 2}}

        class WithNumpy:
            def to_dict(self):
                return {'i': np.int64(3), 'f': np.float32(0.5),
                        'b': np.bool_(True), 'a': np.arange(3),
                        'm': np.eye(2), 's': np.str_('x'),
                        'c': [np.float64(np.inf)], 'z': np.array(1.5)}

        attempt('save-unserialisable', lambda: save_obj_to_json(Bad(), path))
        with open(path) as f:
            out.append('kept: ' + f.read())
        attempt('save-numpy', lambda: save_obj_to_json(WithNumpy(), path))
        with open(path) as f:
            out.append('numpy-file: ' + text_sha(f.read()))
        attempt('save-complex', lambda: save_obj_to_json(
            type('C', (), {'to_dict': lambda self: {'c': np.complex128(1j)}})
            (), path))
        with open(path) as f:
            out.append('after-complex: ' + text_sha(f.read()))
    return out


def mirror_sharing_report():
    """Hand-edited dictionaries that hit every arm of the medium sharing."""
    out = []
    base = custom_polarized().to_dict()

    def variant(label, mutate):
        d = json.loads(json.dumps(base))
        mutate(d['surface_group']['surfaces'])
        try:
            group = SurfaceGroup.from_dict(d['surface_group'])
            lens = Optic.from_dict(d)
            out.append(f'{label}: {sharing_digest(lens)} '
                       f'{text_sha(dump(group.to_dict()))} '
                       f'{text_sha(dump(lens.to_dict()))}')
        except Exception as err:
            out.append(f'{label}: {type(err).__name__}: {err}')

    variant('as-saved', lambda s: None)
    # mirror whose two sides differ
    variant('mirror-post-differs',
            lambda s: s[3]['material_post'].update({'index': 1.3}))
    # pre differs from the previous post
    variant('pre-differs',
            lambda s: s[2]['material_pre'].update({'name': 'N-BK7'}))
    # mirror whose pre differs from previous post but equals own post
    variant('mirror-pre-differs', lambda s: (
        s[3]['material_pre'].update({'index': 1.2}),
        s[3]['material_post'].update({'index': 1.2})))
    # reflective flag off on identical media
    variant('not-reflective', lambda s: s[3].update({'is_reflective': False}))
    # reflective first real surface
    variant('reflective-first', lambda s: s[1].update(
        {'is_reflective': True, 'material_post': s[1]['material_pre'],
         'coating': None}))
    return out


if __name__ == '__main__':
    np.random.seed(0)
    for name, make in LENSES:
        print(lens_report(name, make))
    print('--- errors')
    for row in error_report():
        print(row)
    print('--- sharing variants')
    for row in mirror_sharing_report():
        print(row)

"""Equivalence digest for C02-tw-2; output must be byte-identical before/after the patch."""
import hashlib
import importlib
import inspect
import warnings

import numpy as np

warnings.simplefilter('ignore')
np.seterr(all='ignore')

from optiland.optic import Optic  # noqa: E402
from optiland.rays import RealRays  # noqa: E402
from optiland.coordinate_system import CoordinateSystem  # noqa: E402


def digest(*arrays):
    h = hashlib.sha1()
    for a in arrays:
        a = np.ascontiguousarray(np.asarray(a, dtype=np.float64))
        h.update(str(a.shape).encode())
        h.update(a.tobytes())
    return h.hexdigest()


def group_digest(lens):
    sg = lens.surface_group
    return digest(sg.x, sg.y, sg.z, sg.L, sg.M, sg.N, sg.opd, sg.intensity)


def rays_digest(r):
    return digest(r.x, r.y, r.z, r.L, r.M, r.N, r.i, r.w, r.opd)


SAMPLE_MODULES = ('eyepieces', 'infrared', 'lithography', 'microscopes',
                  'objectives', 'simple', 'telescopes')


def all_samples():
    found = {}
    for mod in SAMPLE_MODULES:
        module = importlib.import_module('optiland.samples.' + mod)
        for name, cls in inspect.getmembers(module, inspect.isclass):
            if issubclass(cls, Optic) and cls is not Optic:
                found[name] = cls
    return sorted(found.items())


SAMPLES = dict(all_samples())
assert len(SAMPLES) == 24, len(SAMPLES)


def trace_all_samples():
    for name, cls in SAMPLES.items():
        lens = cls()
        wls = [w.value for w in lens.wavelengths.wavelengths]
        parts = []
        for Hy in (0.0, 0.7, 1.0):
            for wl in (wls[0], wls[-1]):
                rays = lens.trace(0.0, Hy, wl, num_rays=4,
                                  distribution='hexapolar')
                parts.append(group_digest(lens))
                parts.append(rays_digest(rays))
        # skew ray through generic tracing
        lens.trace_generic(0.3, 0.8, -0.9, 0.35, wls[0])
        parts.append(group_digest(lens))
        print('sample', name,
              hashlib.sha1(''.join(parts).encode()).hexdigest())


def freeform_lens():
    """Decentred / tilted system with every surface shape and a mirror."""
    lens = Optic()
    lens.add_surface(index=0, radius=np.inf, thickness=np.inf)
    lens.add_surface(index=1, radius=40.0, conic=-0.8, thickness=5.0,
                     material='N-BK7', is_stop=True, dx=0.3, ry=0.02)
    lens.add_surface(index=2, radius=-55.0, conic=1.7, thickness=6.0,
                     dy=-0.4, rx=-0.03)
    lens.add_surface(index=3, surface_type='even_asphere', radius=35.0,
                     conic=-1.2, thickness=4.0, material='SF6',
                     coefficients=[1e-4, -2e-6, 3e-9], rx=0.04)
    lens.add_surface(index=4, surface_type='even_asphere', radius=np.inf,
                     conic=0.0, thickness=7.0, coefficients=[-2e-3, 1e-6],
                     dy=0.25)
    lens.add_surface(index=5, surface_type='polynomial', radius=-80.0,
                     conic=0.4, thickness=3.0, material='N-SF11',
                     coefficients=[[0.0, 1e-3, 2e-4], [-1e-3, 1e-4, 0.0],
                                   [3e-4, 0.0, 1e-6]], ry=-0.015)
    lens.add_surface(index=6, surface_type='chebyshev', radius=120.0,
                     conic=-0.3, thickness=12.0,
                     coefficients=[[0.0, 1e-2, -2e-3], [5e-3, 1e-3, 0.0]],
                     norm_x=30.0, norm_y=30.0, dx=-0.2)
    lens.add_surface(index=7, radius=-150.0, conic=-1.0, thickness=-20.0,
                     material='mirror', rx=0.05)
    lens.add_surface(index=8, radius=np.inf, thickness=-5.0, ry=0.03)
    lens.add_surface(index=9)
    lens.set_aperture(aperture_type='EPD', value=12.0)
    lens.set_field_type(field_type='angle')
    lens.add_field(y=0)
    lens.add_field(y=6)
    lens.add_field(y=12)
    lens.add_wavelength(value=0.4861)
    lens.add_wavelength(value=0.5876, is_primary=True)
    lens.add_wavelength(value=0.6563)
    return lens


def trace_freeform():
    lens = freeform_lens()
    for Hy in (0.0, 0.5, 1.0):
        for wl in (0.4861, 0.5876, 0.6563):
            rays = lens.trace(0.0, Hy, wl, num_rays=6,
                              distribution='hexapolar')
            print('freeform', Hy, wl, group_digest(lens), rays_digest(rays))
    rays = lens.trace_generic(np.array([0.2, -0.7, 1.0]),
                              np.array([0.9, 0.1, -1.0]),
                              np.array([0.95, -0.6, 0.0]),
                              np.array([-0.3, 0.75, 1.0]), 0.5876)
    print('freeform skew', group_digest(lens), rays_digest(rays))


# ======================================================================
# C02-tw-2: StandardGeometry.distance (two conic roots handled as one stack)
# ======================================================================
from optiland.geometries import StandardGeometry  # noqa: E402

trace_all_samples()
trace_freeform()

rng = np.random.default_rng(77)


def bundle(n, z0, spread, steep):
    """Random rays starting around z = z0, pointing either way."""
    x = rng.normal(scale=spread, size=n)
    y = rng.normal(scale=spread, size=n)
    z = z0 + rng.normal(scale=spread / 4, size=n)
    L = rng.uniform(-steep, steep, size=n)
    M = rng.uniform(-steep, steep, size=n)
    N = np.sqrt(np.clip(1 - L**2 - M**2, 0, None))
    N *= rng.choice([1.0, 1.0, 1.0, -1.0], size=n)
    return RealRays(x, y, z, L, M, N, np.ones(n), np.full(n, 0.55))


def describe(t):
    return (digest(t), type(t).__name__, t.dtype, t.shape,
            t.flags['C_CONTIGUOUS'], t.flags['WRITEABLE'],
            t.flags['OWNDATA'], int(np.isnan(t).sum()),
            int(np.isinf(t).sum()))


for radius in (10.0, -10.0, 3.0, -250.0, 1e6):
    for k in (0.0, -1.0, -0.5, -2.5, 0.6, 4.0, -1.0000001):
        geo = StandardGeometry(CoordinateSystem(), radius, k)
        for z0 in (-30.0, -1.0, 0.0, 2.0, 15.0, 40.0):
            for steep in (0.05, 0.7):
                rays = bundle(97, z0, 4.0, steep)
                before = rays_digest(rays)
                t = geo.distance(rays)
                assert rays_digest(rays) == before   # rays untouched
                print('distance', radius, k, z0, steep, *describe(t))

# rays along the axis of a paraboloid: a == 0 branch
geo = StandardGeometry(CoordinateSystem(), 20.0, -1.0)
rays = RealRays([0.0, 1.0, -3.0, 2.0], [0.0, 2.0, 0.5, 0.0],
                [-5.0, -5.0, 1.0, 30.0], [0, 0, 0, 0], [0, 0, 0, 0],
                [1.0, 1.0, -1.0, 1.0], [1] * 4, [0.5] * 4)
print('paraboloid axial', *describe(geo.distance(rays)))

# rays that start exactly on the surface / just in front of / behind it
geo = StandardGeometry(CoordinateSystem(), 25.0, 0.3)
xs = np.linspace(-6, 6, 13)
zs = geo.sag(xs, 0.5 * xs)
for dz in (0.0, 1e-12, -1e-12, 1e-9, -1e-9, 1e-3, -1e-3):
    rays = RealRays(xs, 0.5 * xs, zs + dz, np.full(13, 0.1),
                    np.full(13, -0.05), np.full(13, np.sqrt(1 - 0.0125)),
                    np.ones(13), np.full(13, 0.5))
    print('on-surface', dz, *describe(geo.distance(rays)))

# rays perpendicular to the axis (N == 0), missing rays, non-finite input
geo = StandardGeometry(CoordinateSystem(), 8.0, 0.0)
rays = RealRays([-20, -20, -20, 0.0, 0.0, np.nan],
                [0.0, 7.9, 9.0, 0.0, 0.0, 0.0],
                [4.0, 8.0, 4.0, 30.0, -30.0, -5.0],
                [1.0, 1.0, 1.0, 0.0, 0.0, 0.0],
                [0.0, 0.0, 0.0, 1.0, 0.0, 0.0],
                [0.0, 0.0, 0.0, 0.0, -1.0, 1.0], [1] * 6, [0.5] * 6)
print('perpendicular/miss', *describe(geo.distance(rays)))

# far half of an ellipsoid / far sheet of a hyperboloid from inside
for k in (0.8, -3.0):
    geo = StandardGeometry(CoordinateSystem(), 12.0, k)
    rays = bundle(200, 9.0, 2.0, 0.9)
    print('branch', k, *describe(geo.distance(rays)))

# empty bundle and a single ray
geo = StandardGeometry(CoordinateSystem(), 12.0, -0.2)
empty = RealRays(np.empty(0), np.empty(0), np.empty(0), np.empty(0),
                 np.empty(0), np.empty(0), np.empty(0), np.empty(0))
print('empty', *describe(geo.distance(empty)))
one = RealRays(0.3, -0.2, -4.0, 0.01, 0.02, np.sqrt(1 - 5e-4), 1.0, 0.5)
print('single', *describe(geo.distance(one)))

# infinite radius handed to the conic solver
geo = StandardGeometry(CoordinateSystem(), np.inf, 0.0)
print('infinite radius', *describe(geo.distance(bundle(20, -3.0, 1.0, 0.3))))

"""Equivalence digest for C02-tw-3; output must be byte-identical before/after the patch."""
import hashlib
import importlib
import inspect
import warnings

import numpy as np

warnings.simplefilter('ignore')
np.seterr(all='ignore')

from optiland.optic import Optic  # noqa: E402
from optiland.rays import RealRays  # noqa: E402
from optiland.coordinate_system import CoordinateSystem  # noqa: E402


def digest(*arrays):
    h = hashlib.sha1()
    for a in arrays:
        a = np.ascontiguousarray(np.asarray(a, dtype=np.float64))
        h.update(str(a.shape).encode())
        h.update(a.tobytes())
    return h.hexdigest()


def group_digest(lens):
    sg = lens.surface_group
    return digest(sg.x, sg.y, sg.z, sg.L, sg.M, sg.N, sg.opd, sg.intensity)


def rays_digest(r):
    return digest(r.x, r.y, r.z, r.L, r.M, r.N, r.i, r.w, r.opd)


SAMPLE_MODULES = ('eyepieces', 'infrared', 'lithography', 'microscopes',
                  'objectives', 'simple', 'telescopes')


def all_samples():
    found = {}
    for mod in SAMPLE_MODULES:
        module = importlib.import_module('optiland.samples.' + mod)
        for name, cls in inspect.getmembers(module, inspect.isclass):
            if issubclass(cls, Optic) and cls is not Optic:
                found[name] = cls
    return sorted(found.items())


SAMPLES = dict(all_samples())
assert len(SAMPLES) == 24, len(SAMPLES)


def trace_all_samples():
    for name, cls in SAMPLES.items():
        lens = cls()
        wls = [w.value for w in lens.wavelengths.wavelengths]
        parts = []
        for Hy in (0.0, 0.7, 1.0):
            for wl in (wls[0], wls[-1]):
                rays = lens.trace(0.0, Hy, wl, num_rays=4,
                                  distribution='hexapolar')
                parts.append(group_digest(lens))
                parts.append(rays_digest(rays))
        # skew ray through generic tracing
        lens.trace_generic(0.3, 0.8, -0.9, 0.35, wls[0])
        parts.append(group_digest(lens))
        print('sample', name,
              hashlib.sha1(''.join(parts).encode()).hexdigest())


def freeform_lens():
    """Decentred / tilted system with every surface shape and a mirror."""
    lens = Optic()
    lens.add_surface(index=0, radius=np.inf, thickness=np.inf)
    lens.add_surface(index=1, radius=40.0, conic=-0.8, thickness=5.0,
                     material='N-BK7', is_stop=True, dx=0.3, ry=0.02)
    lens.add_surface(index=2, radius=-55.0, conic=1.7, thickness=6.0,
                     dy=-0.4, rx=-0.03)
    lens.add_surface(index=3, surface_type='even_asphere', radius=35.0,
                     conic=-1.2, thickness=4.0, material='SF6',
                     coefficients=[1e-4, -2e-6, 3e-9], rx=0.04)
    lens.add_surface(index=4, surface_type='even_asphere', radius=np.inf,
                     conic=0.0, thickness=7.0, coefficients=[-2e-3, 1e-6],
                     dy=0.25)
    lens.add_surface(index=5, surface_type='polynomial', radius=-80.0,
                     conic=0.4, thickness=3.0, material='N-SF11',
                     coefficients=[[0.0, 1e-3, 2e-4], [-1e-3, 1e-4, 0.0],
                                   [3e-4, 0.0, 1e-6]], ry=-0.015)
    lens.add_surface(index=6, surface_type='chebyshev', radius=120.0,
                     conic=-0.3, thickness=12.0,
                     coefficients=[[0.0, 1e-2, -2e-3], [5e-3, 1e-3, 0.0]],
                     norm_x=30.0, norm_y=30.0, dx=-0.2)
    lens.add_surface(index=7, radius=-150.0, conic=-1.0, thickness=-20.0,
                     material='mirror', rx=0.05)
    lens.add_surface(index=8, radius=np.inf, thickness=-5.0, ry=0.03)
    lens.add_surface(index=9)
    lens.set_aperture(aperture_type='EPD', value=12.0)
    lens.set_field_type(field_type='angle')
    lens.add_field(y=0)
    lens.add_field(y=6)
    lens.add_field(y=12)
    lens.add_wavelength(value=0.4861)
    lens.add_wavelength(value=0.5876, is_primary=True)
    lens.add_wavelength(value=0.6563)
    return lens


def trace_freeform():
    lens = freeform_lens()
    for Hy in (0.0, 0.5, 1.0):
        for wl in (0.4861, 0.5876, 0.6563):
            rays = lens.trace(0.0, Hy, wl, num_rays=6,
                              distribution='hexapolar')
            print('freeform', Hy, wl, group_digest(lens), rays_digest(rays))
    rays = lens.trace_generic(np.array([0.2, -0.7, 1.0]),
                              np.array([0.9, 0.1, -1.0]),
                              np.array([0.95, -0.6, 0.0]),
                              np.array([-0.3, 0.75, 1.0]), 0.5876)
    print('freeform skew', group_digest(lens), rays_digest(rays))


# ======================================================================
# C02-tw-3: NewtonRaphsonGeometry.distance (iteration split into helpers)
# ======================================================================
from optiland.geometries import (EvenAsphere, PolynomialGeometry,  # noqa: E402
                                 ChebyshevPolynomialGeometry)

trace_all_samples()
trace_freeform()

rng = np.random.default_rng(4242)


def bundle(n, z0, spread, steep):
    x = rng.normal(scale=spread, size=n)
    y = rng.normal(scale=spread, size=n)
    z = z0 + rng.normal(scale=spread / 4, size=n)
    L = rng.uniform(-steep, steep, size=n)
    M = rng.uniform(-steep, steep, size=n)
    N = np.sqrt(np.clip(1 - L**2 - M**2, 0, None))
    N *= rng.choice([1.0, 1.0, 1.0, -1.0], size=n)
    return RealRays(x, y, z, L, M, N, np.ones(n), np.full(n, 0.55))


def describe(t):
    return (digest(t), type(t).__name__, t.dtype, t.shape,
            t.flags['C_CONTIGUOUS'], t.flags['WRITEABLE'],
            int(np.isnan(t).sum()), int(np.isinf(t).sum()))


def geometries():
    cs = CoordinateSystem
    for tol, max_iter in ((1e-10, 100), (1e-6, 100), (1e-10, 3), (1e-10, 1),
                          (1e-10, 0), (1e-14, 7)):
        yield ('asphere', tol, max_iter,
               EvenAsphere(cs(), 30.0, -0.7, tol, max_iter,
                           [1e-4, -3e-6, 2e-9]))
        yield ('asphere-strong', tol, max_iter,
               EvenAsphere(cs(), -12.0, 0.9, tol, max_iter,
                           [-4e-3, 6e-5, -1e-7, 2e-10]))
        yield ('asphere-flat-base', tol, max_iter,
               EvenAsphere(cs(), np.inf, 0.0, tol, max_iter, [2e-3, -1e-5]))
        yield ('asphere-no-coeff', tol, max_iter,
               EvenAsphere(cs(), 18.0, -1.0, tol, max_iter, []))
        yield ('polynomial', tol, max_iter,
               PolynomialGeometry(cs(), -60.0, 0.3, tol, max_iter,
                                  [[0.0, 2e-3, 1e-4], [-1e-3, 3e-4, 0.0],
                                   [2e-4, 0.0, 1e-6]]))
        yield ('chebyshev', tol, max_iter,
               ChebyshevPolynomialGeometry(
                   cs(), 90.0, -0.4, tol, max_iter,
                   [[0.0, 2e-2, -3e-3], [1e-2, 2e-3, 1e-3]], 40.0, 40.0))


for label, tol, max_iter, geo in geometries():
    for z0 in (-25.0, -0.5, 0.0, 1.5, 20.0):
        for steep in (0.05, 0.6):
            rays = bundle(61, z0, 2.5, steep)
            before = rays_digest(rays)
            t = geo.distance(rays)
            assert rays_digest(rays) == before   # rays untouched
            nx, ny, nz = geo.surface_normal(rays)
            print('distance', label, tol, max_iter, z0, steep, *describe(t),
                  digest(nx, ny, nz))

# helper-level edge cases through the public method ------------------------
geo = EvenAsphere(CoordinateSystem(), 25.0, 0.0, 1e-10, 100, [1e-4])

# empty bundle: np.max of an empty array raises
empty = RealRays(np.empty(0), np.empty(0), np.empty(0), np.empty(0),
                 np.empty(0), np.empty(0), np.empty(0), np.empty(0))
try:
    print('empty', *describe(geo.distance(empty)))
except Exception as exc:  # noqa: BLE001
    print('empty raises', type(exc).__name__, exc)
geo0 = EvenAsphere(CoordinateSystem(), 25.0, 0.0, 1e-10, 0, [1e-4])
try:
    print('empty max_iter=0', *describe(geo0.distance(empty)))
except Exception as exc:  # noqa: BLE001
    print('empty max_iter=0 raises', type(exc).__name__, exc)

# invalid max_iter
for bad in (2.5, None, '3'):
    g = EvenAsphere(CoordinateSystem(), 25.0, 0.0, 1e-10, bad, [1e-4])
    rays = bundle(5, -3.0, 1.0, 0.1)
    before = rays_digest(rays)
    try:
        print('max_iter', repr(bad), *describe(g.distance(rays)))
    except Exception as exc:  # noqa: BLE001
        print('max_iter', repr(bad), 'raises', type(exc).__name__, exc,
              rays_digest(rays) == before)
g = EvenAsphere(CoordinateSystem(), 25.0, 0.0, 1e-10, -4, [1e-4])
print('max_iter -4', *describe(g.distance(bundle(5, -3.0, 1.0, 0.1))))

# rays perpendicular to the axis, rays missing the base sphere, NaN input
rays = RealRays([-20, -20, 0.0, np.nan, 0.0], [0.0, 30.0, 0.0, 0.0, 40.0],
                [2.0, 2.0, -5.0, -5.0, -5.0], [1.0, 1.0, 0.0, 0.0, 0.0],
                [0.0, 0.0, 0.0, 0.0, 0.0], [0.0, 0.0, 1.0, 1.0, 1.0],
                [1] * 5, [0.5] * 5)
print('perpendicular/miss/nan', *describe(geo.distance(rays)))

# Chebyshev surface evaluated outside its normalisation square: sag raises
cheb = ChebyshevPolynomialGeometry(CoordinateSystem(), 90.0, -0.4, 1e-10, 100,
                                   [[0.0, 2e-2], [1e-2, 2e-3]], 2.0, 2.0)
rays = bundle(9, -4.0, 3.0, 0.2)
before = rays_digest(rays)
try:
    print('chebyshev outside', *describe(cheb.distance(rays)))
except Exception as exc:  # noqa: BLE001
    print('chebyshev outside raises', type(exc).__name__, exc,
          rays_digest(rays) == before)

# call-history independence: same geometry reused, counts of sag calls
calls = []


class CountingAsphere(EvenAsphere):
    def sag(self, x=0, y=0):
        calls.append((digest(x, y)))
        return super().sag(x, y)


g = CountingAsphere(CoordinateSystem(), 15.0, -0.5, 1e-10, 100,
                    [3e-4, -2e-6])
t = g.distance(bundle(33, -6.0, 2.0, 0.4))
print('sag call sequence', len(calls),
      hashlib.sha1(''.join(calls).encode()).hexdigest(), *describe(t))

import hashlib
import inspect
import io
import os
import sys
import tempfile
import contextlib
import numpy as np

from optiland.fileio import load_zemax_file
from optiland.fileio.zemax_handler import ZemaxFileReader
from optiland.fileio.converters import ZemaxToOpticConverter
from optiland.materials import (BaseMaterial, Material, AbbeMaterial,
                                IdealMaterial)
from optiland import samples as _samples_pkg
from optiland.samples import (simple, objectives, eyepieces, infrared,
                              lithography, microscopes, telescopes)

TMP = tempfile.mkdtemp(prefix='c20_equiv_')
PROBE_WL = (0.45, 0.5876, 0.7)


def fx(v):
    """Exact, stable text for a number (hex for floats)."""
    if isinstance(v, (bool, np.bool_)):
        return repr(bool(v))
    if isinstance(v, (float, np.floating)):
        return float(v).hex()
    if isinstance(v, (int, np.integer)):
        return repr(int(v))
    if isinstance(v, np.ndarray):
        return '[' + ','.join(fx(x) for x in v.ravel()) + ']'
    if isinstance(v, (list, tuple)):
        return type(v).__name__ + '(' + ','.join(fx(x) for x in v) + ')'
    return repr(v)


def mat_digest(m):
    if isinstance(m, str):
        return 'str:' + repr(m)
    if isinstance(m, tuple):
        return 'tuple:' + repr(m)
    if m is None:
        return 'None'
    name = type(m).__name__
    if isinstance(m, Material):
        ns = ','.join(fx(float(m.n(w))) for w in PROBE_WL)
        return (f'Material({m.name!r},{m.reference!r},'
                f'{os.path.basename(str(m.material_data["filename"]))!r},'
                f'n={ns})')
    if isinstance(m, AbbeMaterial):
        ns = ','.join(fx(float(m.n(w))) for w in PROBE_WL)
        return f'Abbe({fx(m.index)},{fx(m.abbe)},n={ns})'
    if isinstance(m, IdealMaterial):
        return f'Ideal({fx(float(m.n(0.55)))})'
    return name


def data_digest(d):
    """Stable text of the reader's data dictionary (insertion order kept)."""
    if isinstance(d, dict):
        return '{' + ', '.join(f'{k!r}: {data_digest(v)}'
                               for k, v in d.items()) + '}'
    if isinstance(d, BaseMaterial):
        return mat_digest(d)
    if isinstance(d, (list, tuple)):
        return (type(d).__name__ + '(' +
                ', '.join(data_digest(x) for x in d) + ')')
    return fx(d)


def lens_digest(lens):
    out = []
    sg = lens.surface_group
    out.append(f'nsurf={sg.num_surfaces} stop={sg.stop_index}')
    out.append('radii=' + fx(np.asarray(sg.radii, dtype=float)))
    out.append('conic=' + fx(np.asarray(sg.conic, dtype=float)))
    out.append('z=' + fx(np.asarray(sg.positions, dtype=float)))
    for i, s in enumerate(sg.surfaces):
        g = s.geometry
        coeffs = getattr(g, 'c', None)
        out.append(f' s{i}: {type(s).__name__}/{type(g).__name__} '
                   f'k={fx(float(getattr(g, "k", 0.0)))} '
                   f'c={fx(list(coeffs)) if coeffs is not None else None} '
                   f'refl={getattr(s, "is_reflective", None)} '
                   f'stop={s.is_stop} '
                   f'pre={mat_digest(getattr(s, "material_pre", None))} '
                   f'post={mat_digest(s.material_post)}')
    ap = lens.aperture
    out.append(f'aperture={ap.ap_type!r} {fx(ap.value)}')
    out.append(f'field_type={lens.field_type!r} '
               f'tele={lens.obj_space_telecentric}')
    out.append('fields=' + ';'.join(
        f'({fx(f.x)},{fx(f.y)},{fx(f.vx)},{fx(f.vy)},{f.field_type!r})'
        for f in lens.fields.fields))
    out.append('waves=' + ';'.join(f'({fx(w.value)},{w.is_primary})'
                                   for w in lens.wavelengths.wavelengths))
    for name in ('f1', 'f2', 'F1', 'F2', 'P1', 'P2', 'N1', 'N2', 'EPD',
                 'EPL', 'XPD', 'XPL', 'FNO', 'magnification'):
        try:
            val = getattr(lens.paraxial, name)()
            out.append(f'{name}={fx(np.asarray(val, dtype=float))}')
        except Exception as e:  # noqa
            out.append(f'{name}!{type(e).__name__}:{e}')
    return '\n'.join(out)


_counter = [0]


def write_text(text, encoding):
    _counter[0] += 1
    fn = os.path.join(TMP, f'f{_counter[0]}.zmx')
    with open(fn, 'w', encoding=encoding, newline='') as f:
        f.write(text)
    return fn


def run_file(text, encoding='utf-8'):
    """Load the text through the public API; returns the digest text."""
    fn = write_text(text, encoding)
    buf = io.StringIO()
    parts = []
    try:
        with contextlib.redirect_stdout(buf):
            reader = ZemaxFileReader(fn)
    except Exception as e:  # noqa
        return (f'READER!{type(e).__name__}:{e}\nstdout={buf.getvalue()!r}')
    parts.append('data=' + data_digest(reader.data))
    parts.append('cur=' + data_digest(reader._current_surf_data) +
                 f' idx={reader._current_surf}')
    try:
        with contextlib.redirect_stdout(buf):
            lens = reader.generate_lens()
            dig = lens_digest(lens)
        parts.append(dig)
    except Exception as e:  # noqa
        parts.append(f'CONVERT!{type(e).__name__}:{e}')
    try:
        with contextlib.redirect_stdout(buf):
            lens2 = load_zemax_file(fn)
            same = lens_digest(lens2) == parts[-1]
        parts.append(f'load_zemax_file same={same}')
    except Exception as e:  # noqa
        parts.append(f'LOAD!{type(e).__name__}:{e}')
    parts.append(f'stdout={buf.getvalue()!r}')
    return '\n'.join(parts)


def call_method(reader, name, data):
    """Call one private line handler (as the unit tests do) and digest the
    outcome and the full reader state afterwards."""
    buf = io.StringIO()
    try:
        with contextlib.redirect_stdout(buf):
            ret = getattr(reader, name)(data)
        res = f'ret={ret!r}'
    except Exception as e:  # noqa
        res = f'EXC {type(e).__name__}:{e}'
    return (f'{name}({data!r}) -> {res}\n   data={data_digest(reader.data)}'
            f'\n   cur={data_digest(reader._current_surf_data)}'
            f'\n   stdout={buf.getvalue()!r}')


# ----------------------------------------------------------------------
# sample lenses -> .zmx text
# ----------------------------------------------------------------------
def zmx_from_lens(lens, newline='\n', model_name='MODELGLASS'):
    lines = ['VERS 140124 258 36214', 'MODE SEQ', 'NAME exported',
             'UNIT MM X W X CM MR CPMM']
    ap = lens.aperture
    if ap.ap_type == 'EPD':
        lines.append(f'ENPD {ap.value!r}')
    elif ap.ap_type == 'imageFNO':
        lines.append(f'FNUM {ap.value!r} 0')
    elif ap.ap_type == 'paraxialImageFNO':
        lines.append(f'FNUM {ap.value!r} 1')
    elif ap.ap_type == 'objectNA':
        lines.append(f'OBNA {ap.value!r} 0')
    else:
        raise ValueError('aperture')
    refs = []
    for s in lens.surface_group.surfaces:
        m = s.material_post
        if isinstance(m, Material) and m.reference and \
                m.reference.upper() not in refs:
            refs.append(m.reference.upper())
    lines.append('GCAT ' + ' '.join(['SCHOTT'] + refs))
    ftype = {'angle': 0, 'object_height': 1}[lens.field_type]
    flds = lens.fields.fields
    wls = lens.wavelengths.wavelengths
    lines.append(f'FTYP {ftype} 0 {len(flds)} {len(wls)} 0 0 0')
    lines.append('XFLN ' + ' '.join(repr(float(f.x)) for f in flds))
    lines.append('YFLN ' + ' '.join(repr(float(f.y)) for f in flds))
    prim = [i for i, w in enumerate(wls) if w.is_primary][0]
    lines.append(f'PWAV {prim + 1}')
    for i, w in enumerate(wls):
        lines.append(f'WAVM {i + 1} {float(w.value)!r} 1')
    sg = lens.surface_group
    z = np.asarray(sg.positions, dtype=float).ravel()
    n = sg.num_surfaces
    for i, s in enumerate(sg.surfaces):
        lines.append(f'SURF {i}')
        if s.is_stop:
            lines.append('  STOP')
        g = s.geometry
        gname = type(g).__name__
        if gname == 'EvenAsphere':
            lines.append('  TYPE EVENASPH')
        elif gname in ('Plane', 'StandardGeometry'):
            lines.append('  TYPE STANDARD')
        else:
            raise ValueError('geometry ' + gname)
        r = float(getattr(g, 'radius', np.inf))
        lines.append('  CURV ' + ('0.0' if np.isinf(r) else repr(1.0 / r)))
        if gname == 'EvenAsphere':
            c = list(g.c) + [0.0] * 8
            for k in range(8):
                lines.append(f'  PARM {k + 1} {float(c[k])!r}')
        if i == 0:
            t = -z[0]
        elif i == n - 1:
            t = 0.0
        else:
            t = z[i + 1] - z[i]
        lines.append('  DISZ ' + ('INFINITY' if np.isinf(t) else repr(float(t))))
        k = float(getattr(g, 'k', 0.0))
        if k != 0.0:
            lines.append(f'  CONI {k!r}')
        m = s.material_post
        if getattr(s, 'is_reflective', False):
            lines.append('  GLAS MIRROR 0 0 1.5 40')
        elif isinstance(m, Material):
            nd = float(m.n(0.5875618))
            vd = (nd - 1) / float(m.n(0.4861327) - m.n(0.6562725))
            lines.append(f'  GLAS {m.name} 1 0 {nd!r} {vd!r}')
        elif isinstance(m, IdealMaterial):
            nd = float(m.n(0.55))
            if nd != 1.0:
                lines.append(f'  GLAS {model_name} 1 0 {nd!r} 55.5')
        elif isinstance(m, AbbeMaterial):
            lines.append(f'  GLAS {model_name} 1 0 {m.index!r} {m.abbe!r}')
        else:
            raise ValueError('material')
    return newline.join(lines) + newline


def all_sample_lenses():
    mods = (simple, objectives, eyepieces, infrared, lithography,
            microscopes, telescopes)
    out = []
    for mod in mods:
        for name, cls in sorted(vars(mod).items()):
            if inspect.isclass(cls) and cls.__module__ == mod.__name__:
                out.append((f'{mod.__name__.split(".")[-1]}.{name}', cls))
    return out


class Digest:
    def __init__(self):
        self.sha = hashlib.sha1()
        self.n = 0

    def section(self, title, text, show=True):
        self.n += 1
        h = hashlib.sha1(text.encode('utf-8')).hexdigest()
        self.sha.update(title.encode('utf-8') + b'\0' + text.encode('utf-8'))
        print(f'## {title}  sha1={h}')
        if show:
            print(text)

    def finish(self):
        print(f'TOTAL sections={self.n} sha1={self.sha.hexdigest()}')


def run_samples(dg, encodings=('utf-8', 'utf-16'), show=False):
    for name, cls in all_sample_lenses():
        buf = io.StringIO()
        try:
            with contextlib.redirect_stdout(buf):
                lens = cls()
                text = zmx_from_lens(lens)
        except Exception as e:  # noqa
            dg.section(f'sample {name}', f'EXPORT!{type(e).__name__}:{e}')
            continue
        for enc in encodings:
            nl_text = text if enc == 'utf-8' else text.replace('\n', '\r\n')
            dg.section(f'sample {name} [{enc}]', run_file(nl_text, enc),
                       show=show)


def run_repo_files(dg, root):
    for fn in ('lens1.zmx', 'lens2.zmx'):
        path = os.path.join(root, 'tests', 'zemax_files', fn)
        buf = io.StringIO()
        with contextlib.redirect_stdout(buf):
            reader = ZemaxFileReader(path)
            lens = reader.generate_lens()
            txt = ('data=' + data_digest(reader.data) + '\n' +
                   lens_digest(lens))
        dg.section(f'repo file {fn}', txt + f'\nstdout={buf.getvalue()!r}')


HEADER = '''MODE SEQ
ENPD 10.0
GCAT SCHOTT HIKARI
FTYP 0 0 2 3 0 0 0
XFLN 0.0 0.0
YFLN 0.0 5.0
PWAV 2
WAVM 1 0.4861327 1
WAVM 2 0.5875618 1
WAVM 3 0.6562725 1
'''


def singlet(curv1='0.02', curv2='-0.02', t0='INFINITY', t1='5.0', t2='45.0',
            glas='GLAS N-BK7 1 0 1.5168 64.17', header=HEADER,
            type1='STANDARD', extra1='', extra2=''):
    return (header +
            f'SURF 0\n  TYPE STANDARD\n  CURV 0.0\n  DISZ {t0}\n'
            f'SURF 1\n  STOP\n  TYPE {type1}\n  CURV {curv1}\n{extra1}'
            f'  DISZ {t1}\n  {glas}\n'
            f'SURF 2\n  TYPE STANDARD\n  CURV {curv2}\n{extra2}'
            f'  DISZ {t2}\n'
            f'SURF 3\n  TYPE STANDARD\n  CURV 0.0\n  DISZ 0.0\n')


# ----------------------------------------------------------------------
# main
# ----------------------------------------------------------------------
ROOT = os.environ.get('C20_ROOT', '/tmp/tw6/C20')


def fresh_reader():
    buf = io.StringIO()
    with contextlib.redirect_stdout(buf):
        return ZemaxFileReader(write_text(singlet(), 'utf-8'))


def main():
    dg = Digest()
    run_repo_files(dg, ROOT)
    run_samples(dg, show=False)

    curvs = ['0', '0.', '0.0', '-0.0', '+0', '0e5', '-0E-3', '.0', '00.000',
             '1e-400', '-1e-400',                 # underflow to +-0
             '5e-324', '-5e-324', '1e-310', '2e-308',  # 1/x overflows / huge
             '1e308', '1.7976931348623157e308', '1e400', '-1e400',
             'inf', '-inf', 'INFINITY', 'Infinity', 'nan', '-nan', 'NaN',
             '0.02', '-0.02', '1', '-1', '3', '0.1', '1e-3', '0.08038721978664398',
             '-0.0055170138366520405', '1_0', ' 0.5', '0x10', '1,5', 'abc', '']
    for c in curvs:
        for enc in ('utf-8', 'utf-16'):
            dg.section(f'CURV {c!r} on surface 1 [{enc}]',
                       run_file(singlet(curv1=c), enc))
    for c in ('0.0', '-0.0', '1e-400', '0.013', 'nan', 'bad'):
        dg.section(f'CURV {c!r} on surface 2',
                   run_file(singlet(curv2=c)))
    # CURV line without a value: IndexError, swallowed by the file loop
    dg.section('CURV without value',
               run_file(singlet().replace('CURV 0.02\n', 'CURV\n')))
    dg.section('no CURV line at all',
               run_file(singlet().replace('  CURV 0.02\n', '')))
    dg.section('two CURV lines',
               run_file(singlet(curv1='0.02\n  CURV 0')))
    dg.section('two CURV lines, reversed',
               run_file(singlet(curv1='0\n  CURV 0.02')))

    thick = ['INFINITY', 'infinity', 'Infinity', 'inf', '-inf', '-INFINITY',
             '+INFINITY', 'INFINITY0', 'INF', 'nan', '1e400', '-1e400',
             '0', '0.', '-0.0', '5', '5.514017105102539', '-3.25', '1e-320',
             '1e10', '1_000', 'abc', '', '1e10000']
    for t in thick:
        for enc in ('utf-8', 'utf-16'):
            dg.section(f'DISZ {t!r} on the object [{enc}]',
                       run_file(singlet(t0=t), enc))
        dg.section(f'DISZ {t!r} on surface 1', run_file(singlet(t1=t)))
        dg.section(f'DISZ {t!r} on surface 2', run_file(singlet(t2=t)))
    dg.section('DISZ without value',
               run_file(singlet().replace('DISZ 5.0\n', 'DISZ\n')))
    dg.section('no DISZ line', run_file(singlet().replace('  DISZ 5.0\n', '')))
    dg.section('object height, finite object',
               run_file(singlet(header=HEADER.replace('FTYP 0', 'FTYP 1'),
                                t0='1e2')))

    reader = fresh_reader()
    txt = []
    for c in (['CURV', '0'], ['CURV', '-0.0'], ['CURV', '0.25'],
              ['CURV', '0.25', '0', '0', '0'], ['CURV'], [], ['CURV', 'x'],
              ['CURV', 'inf'], ['CURV', 'nan'], ['CURV', '5e-324'],
              ['CURV', 0], ['CURV', 0.0], ['CURV', 4], ['CURV', True],
              ['CURV', False], ['CURV', None], ['CURV', np.float64(0.0)],
              ['CURV', np.float64(0.5)], ['CURV', np.float32(0.1)],
              ['CURV', b'0.5'], ['CURV', b'0']):
        txt.append(call_method(reader, '_read_radius', c))
        txt.append('   type=' + type(
            reader._current_surf_data.get('radius')).__name__)
    for c in (['DISZ', 'INFINITY'], ['DISZ', '1.5'], ['DISZ', 'infinity'],
              ['DISZ'], [], ['DISZ', 'x'], ['DISZ', 3], ['DISZ', np.inf],
              ['DISZ', None], ['DISZ', b'INFINITY'], ['DISZ', '2', 'INFINITY'],
              ['DISZ', np.str_('INFINITY')], ['DISZ', True]):
        txt.append(call_method(reader, '_read_thickness', c))
        txt.append('   type=' + type(
            reader._current_surf_data.get('thickness')).__name__)
    dg.section('direct calls of _read_radius / _read_thickness',
               '\n'.join(txt))
    dg.finish()


if __name__ == '__main__':
    main()

"""Digest of the catalogue refractive-index evaluation (change 3: the
table-type if/elif chain of the parser replaced by a column map).

Prints the same text on the unchanged tree and with the patch applied.
"""
import hashlib
import io
import os
import contextlib
import warnings

import numpy as np
import pandas as pd

import optiland
from optiland.materials import Material, MaterialFile
from optiland.samples.objectives import (
    CookeTriplet, DoubleGauss, ReverseTelephoto, TessarLens, PetzvalLens,
    Telephoto, HeliarLens, ObjectiveUS008879901)
from optiland.samples.eyepieces import EyepieceErfle
from optiland.samples.infrared import InfraredTriplet
from optiland.samples.lithography import UVProjectionLens
from optiland.samples.microscopes import Objective60x

warnings.simplefilter('ignore')
np.seterr(all='ignore')

ROOT = os.path.join(os.path.dirname(os.path.abspath(optiland.__file__)), '..',
                    'database')
df = pd.read_csv(os.path.join(ROOT, 'catalog_nk.csv'))


def fbytes(x):
    """Exact bytes plus the python type / shape of a result."""
    a = np.asarray(x)
    return (type(x).__name__ + str(a.dtype) + str(a.shape)).encode() \
        + np.ascontiguousarray(a, dtype=np.float64).tobytes()


def outcome(func, *args):
    try:
        return fbytes(func(*args))
    except Exception as e:  # the exception type and text are part of the API
        return f'{type(e).__name__}:{e}'.encode()


# 1. every catalogue row, scalar / numpy scalar / 1-D / 2-D wavelengths
per_formula = {}
total = hashlib.sha1()
for i, row in df.iterrows():
    path = os.path.join(ROOT, 'data-nk', row['filename'])
    try:
        m = MaterialFile(path)
    except Exception as e:
        total.update(f'{row["filename"]} {type(e).__name__}'.encode())
        continue
    lo, hi = row['min_wavelength'], row['max_wavelength']
    ws = np.linspace(lo, hi, 9)
    h = per_formula.setdefault(str(m._n_formula), hashlib.sha1())
    parts = [outcome(m.n, float(w)) for w in ws]
    parts.append(outcome(m.n, ws))
    parts.append(outcome(m.n, ws.reshape(3, 3)))
    parts.append(outcome(m.n, np.float64(ws[4])))
    parts.append(outcome(m.n, 1))              # python int wavelength
    parts.append(outcome(m.k, ws))
    parts.append(outcome(m.k, float(ws[3])))
    parts.append(outcome(m.abbe))
    parts.append(repr([float(c).hex() for c in m.coefficients]).encode())
    for name in ('_n_wavelength', '_n', '_k_wavelength', '_k'):
        v = getattr(m, name)
        parts.append(b'None' if v is None else fbytes(v))
    parts.append(repr(m.reference_data).encode())
    for p in parts:
        h.update(p)
        total.update(p)
for key in sorted(per_formula):
    print(key, per_formula[key].hexdigest())
print('all rows', total.hexdigest())


# 2. edge cases of the touched branches: hand-written data blocks fed through
#    the parser, on a fresh object (via a temporary file) and on top of an
#    already parsed object (state left behind when parsing fails half-way)
import tempfile
import yaml


def file(rel):
    return os.path.join(ROOT, 'data-nk', rel)


T3 = '0.3 1.5 0.1\n0.5 1.4 0.2\n0.4 1.45 0.15\n0.9 1.3 0.0'
T2 = '0.3 1.5\n0.7 1.4\n0.5 1.45'
T1ROW3 = '0.5 1.5 0.01'
T1ROW2 = '0.5 1.5'
T1COL = '0.3\n0.5\n0.7'
F2 = {'type': 'formula 2', 'coefficients': '0 1.03 0.006 0.23 0.02 1.01 103'}
F5 = {'type': 'formula 5', 'coefficients': '1.5 0.004 -2'}


def tab(kind, text):
    return {'type': kind, 'data': text}


BLOCKS = {
    'n': [tab('tabulated n', T2)],
    'n3': [tab('tabulated n', T3)],
    'k': [tab('tabulated k', T2)],
    'k3': [tab('tabulated k', T3)],
    'nk': [tab('tabulated nk', T3)],
    'nk-2col': [tab('tabulated nk', T2)],
    'nk-1row': [tab('tabulated nk', T1ROW3)],
    'n-1row': [tab('tabulated n', T1ROW2)],
    'k-1row': [tab('tabulated k', T1ROW2)],
    'n-1col': [tab('tabulated n', T1COL)],
    'k-1col': [tab('tabulated k', T1COL)],
    'n,k': [tab('tabulated n', T2), tab('tabulated k', T3)],
    'k,n': [tab('tabulated k', T3), tab('tabulated n', T2)],
    'n,nk': [tab('tabulated n', T2), tab('tabulated nk', T3)],
    'nk,n': [tab('tabulated nk', T3), tab('tabulated n', T2)],
    'nk,nk': [tab('tabulated nk', T3), tab('tabulated nk', T3)],
    'n,n': [tab('tabulated n', T2), tab('tabulated n', T3)],
    'k,k': [tab('tabulated k', T2), tab('tabulated k', T3)],
    'k,nk': [tab('tabulated k', T2), tab('tabulated nk', T3)],
    'nk,k': [tab('tabulated nk', T3), tab('tabulated k', T2)],
    'f2': [F2],
    'f2,k': [F2, tab('tabulated k', T2)],
    'f2,nk': [F2, tab('tabulated nk', T3)],
    'nk,f2': [tab('tabulated nk', T3), F2],
    'f5,n': [F5, tab('tabulated n', T2)],
    'n,f5': [tab('tabulated n', T2), F5],
    'f2,f5': [F2, F5],
    'k,f5,nk': [tab('tabulated k', T2), F5, tab('tabulated nk', T3)],
    'other': [tab('tabulated n2', T2)],
    'other2': [tab('tabulated', T3), tab('tabulatedk', T3)],
    'other,f5': [tab('tabulated nkk', T3), F5],
    'unknown': [{'type': 'model x', 'data': T2}],
    'empty': [],
    'bad-text': [tab('tabulated n', 'a b\nc d')],
    'no-data-key': [{'type': 'tabulated k'}],
    'no-coeff-key': [{'type': 'formula 1'}],
}
WS = np.array([0.2, 0.3, 0.35, 0.45, 0.5, 0.8, 1.0])


def state(m):
    out = []
    for name in ('_n_formula', 'coefficients', '_n_wavelength', '_n',
                 '_k_wavelength', '_k', 'reference_data'):
        v = getattr(m, name, 'MISSING')
        if isinstance(v, np.ndarray):
            out.append(name.encode() + fbytes(v)
                       + str(v.flags['C_CONTIGUOUS']).encode())
        else:
            out.append(f'{name}={v!r}'.encode())
    out.append(outcome(m.n, WS))
    out.append(outcome(m.n, 0.45))
    out.append(outcome(m.k, WS))
    out.append(outcome(m.k, 0.45))
    out.append(outcome(m.abbe))
    return b'|'.join(out)


tmp = tempfile.mkdtemp()
for label, blocks in BLOCKS.items():
    for ref in (None, 'some reference'):
        data = {'DATA': blocks}
        if ref:
            data['REFERENCE'] = ref
        path = os.path.join(tmp, 'case.yml')
        with open(path, 'w', encoding='utf-8') as fh:
            yaml.safe_dump(data, fh)
        # fresh object
        try:
            res = state(MaterialFile(path))
        except Exception as e:
            res = f'{type(e).__name__}:{e}'.encode()
        # on top of parsed objects: formula 3 + k table, nk table, k only
        later = []
        for rel in ('glass/hikari/J-BK7A.yml', 'main/B/Fernandez-Perea.yml',
                    'organic/C3H8O3 - glycerol/Wang.yml'):
            m = MaterialFile(file(rel))
            try:
                ret = repr(m._parse_file(data)).encode()
            except Exception as e:
                ret = f'{type(e).__name__}:{e}'.encode()
            later.append(hashlib.sha1(ret + state(m)).hexdigest()[:10])
        print('case', label.ljust(10), 'ref' if ref else '---',
              hashlib.sha1(res).hexdigest()[:16],
              res[:60].split(b'|')[0].decode(errors='replace'), *later)

# 3. parsing data without a DATA key
m = MaterialFile(file('main/Y3Al5O12/Bond.yml'))
print(outcome(m._parse_file, {}).decode(),
      outcome(m._parse_file, {'REFERENCE': 'x'}).decode())
print(sorted(k for k in vars(m)))

# 4. sample lenses: indices seen by the ray tracer and a paraxial quantity
for cls in (CookeTriplet, DoubleGauss, ReverseTelephoto, TessarLens,
            PetzvalLens, Telephoto, HeliarLens, ObjectiveUS008879901,
            EyepieceErfle, InfraredTriplet, UVProjectionLens, Objective60x):
    buf = io.StringIO()
    with contextlib.redirect_stdout(buf):
        lens = cls()
        ws = lens.wavelengths.get_wavelengths()
        n = np.array([lens.n(w) for w in ws])
        f = lens.paraxial.f2()
    print(cls.__name__, hashlib.sha1(fbytes(n)).hexdigest(),
          float(np.asarray(f).ravel()[0]).hex())

# 5. catalogue lookups through Material
for args in (('N-BK7',), ('BK7', 'schott'), ('SF6', 'schott'), ('CaF2',),
             ('YbF3',), ('SiO2', 'Malitson'), ('J-BK7A', 'hikari')):
    buf = io.StringIO()
    with contextlib.redirect_stdout(buf):
        m = Material(*args)
    print(args, os.path.basename(m.filename), m._n_formula,
          float(m.n(0.5875618)).hex(), float(m.abbe()).hex())

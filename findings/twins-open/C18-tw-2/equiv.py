"""Digest of the catalogue refractive-index evaluation (change 2: named
unpacking of the rational terms of formula 4, enumerate loop and named
constant in formula 7).

Prints the same text on the unchanged tree and with the patch applied.
"""
import hashlib
import io
import os
import contextlib
import warnings

import numpy as np
import pandas as pd

import optiland
from optiland.materials import Material, MaterialFile
from optiland.samples.objectives import (
    CookeTriplet, DoubleGauss, ReverseTelephoto, TessarLens, PetzvalLens,
    Telephoto, HeliarLens, ObjectiveUS008879901)
from optiland.samples.eyepieces import EyepieceErfle
from optiland.samples.infrared import InfraredTriplet
from optiland.samples.lithography import UVProjectionLens
from optiland.samples.microscopes import Objective60x

warnings.simplefilter('ignore')
np.seterr(all='ignore')

ROOT = os.path.join(os.path.dirname(os.path.abspath(optiland.__file__)), '..',
                    'database')
df = pd.read_csv(os.path.join(ROOT, 'catalog_nk.csv'))


def fbytes(x):
    """Exact bytes plus the python type / shape of a result."""
    a = np.asarray(x)
    return (type(x).__name__ + str(a.dtype) + str(a.shape)).encode() \
        + np.ascontiguousarray(a, dtype=np.float64).tobytes()


def outcome(func, *args):
    try:
        return fbytes(func(*args))
    except Exception as e:  # the exception type and text are part of the API
        return f'{type(e).__name__}:{e}'.encode()


# 1. every catalogue row, scalar / numpy scalar / 1-D / 2-D wavelengths
per_formula = {}
total = hashlib.sha1()
for i, row in df.iterrows():
    path = os.path.join(ROOT, 'data-nk', row['filename'])
    try:
        m = MaterialFile(path)
    except Exception as e:
        total.update(f'{row["filename"]} {type(e).__name__}'.encode())
        continue
    lo, hi = row['min_wavelength'], row['max_wavelength']
    ws = np.linspace(lo, hi, 9)
    h = per_formula.setdefault(str(m._n_formula), hashlib.sha1())
    parts = [outcome(m.n, float(w)) for w in ws]
    parts.append(outcome(m.n, ws))
    parts.append(outcome(m.n, ws.reshape(3, 3)))
    parts.append(outcome(m.n, np.float64(ws[4])))
    parts.append(outcome(m.n, 1))              # python int wavelength
    parts.append(outcome(m.k, ws))
    parts.append(outcome(m.k, float(ws[3])))
    parts.append(outcome(m.abbe))
    parts.append(repr([float(c).hex() for c in m.coefficients]).encode())
    for p in parts:
        h.update(p)
        total.update(p)
for key in sorted(per_formula):
    print(key, per_formula[key].hexdigest())
print('all rows', total.hexdigest())


# 2. edge cases of the touched branches: formula 4 (rational terms present,
#    absent, zero-padded, too short) and formula 7 (no catalogue row uses it,
#    so it is forced onto a file as the test-suite does)
def file(rel):
    return os.path.join(ROOT, 'data-nk', rel)


BASE = 'main/CaGdAlO4/Loiko-o.yml'
COEFFS4 = [
    [],
    [2.25],
    [2.25, 0.5, 2.0, 0.1, 2.0],
    [2.25, 0.0, 0.0, 0.0, 0.0, 0.0, 0.0, 0.0],
    [2.25, 0.0, 0.0, 0.0, 0.0, 0.0, 0.0, 0.0, 0.0],
    [2.25, 0.5, 2.0, 0.1, 2.0, 0.0, 0.0, 0.0, 0.0],
    [2.25, 0.0, 0.0, 0.0, 0.0, 0.3, 2.0, 9.0, 2.0],
    [2.25, 0.5, 2.0, 0.1, 2.0, 0.0, 0.0, 0.0, 0.0, 0.01],
    [2.25, 0.5, 0.0, 0.1, 1.0, 0.3, 2.0, 9.0, 1.0, 0.01, 2.0],
    [2.25, 0.5, 2.0, 0.1, 2.0, 0.3, 2.0, 9.0, 2.0, 0.01, 2.0, -0.001, 4.0],
    [2.25, -0.0, 2.0, 0.1, 2.0, float('nan'), 2.0, 9.0, 2.0],
    [2, 1, 2, 0, 2, 1, 2, 9, 2, 1, -2],                     # python ints
    list(np.linspace(0.1, 1.3, 13)),                        # numpy scalars
    np.linspace(0.1, 1.3, 13),                              # an ndarray
    tuple(np.linspace(0.1, 1.3, 11).tolist()),              # a tuple
]
COEFFS7 = [
    [],
    [1.0],
    [1.0, 0.58],
    [1.0, 0.58, 0.12],
    [1.0, 0.58, 0.12, 0.87],
    [1.0, 0.58, 0.12, 0.87, 0.21, 0.81],
    [1.0, 0.58, 0.12, 0.87, 0.21, 0.81, -0.3, 0.07],
    [1, 2, 3, 4, 5],
    list(np.linspace(0.1, 0.7, 7)),
    np.linspace(0.1, 0.7, 7),
    (1.5, 0.01, 0.001, -0.01, 0.002),
]
WAVES = [0.4, 1.0, 1, np.float64(0.55), np.array([0.45, 0.55, 0.65]),
         np.array([[0.5, 0.6], [0.7, 0.8]]), np.array([1, 2]), 0.0, -0.5,
         np.sqrt(0.028), float(np.sqrt(0.028)), 0.3, 3.0,
         np.array([]), [0.5, 0.6], 'abc', None]
for label, formula, coeff_sets in (('formula 4', None, COEFFS4),
                                   ('formula 7', 'formula 7', COEFFS7)):
    edge = hashlib.sha1()
    for coeffs in coeff_sets:
        for w in WAVES:
            m = MaterialFile(file(BASE))
            if formula:
                m._n_formula = formula
            m.coefficients = coeffs
            edge.update(outcome(m.n, w))
            edge.update(outcome(m.abbe))
            # the stored coefficients must not be modified by evaluation
            edge.update(repr([float(c).hex() for c in m.coefficients])
                        .encode())
    print('edge', label, edge.hexdigest())

# 3. the values and messages of the test-suite, verbatim
m = MaterialFile(file('main/Y2O3/Nigara.yml'))
m._n_formula = 'formula 7'
m.coefficients = [1.0, 0.58, 0.12, 0.87, 0.21, 0.81]
print([float(m.n(w)).hex() for w in (0.4, 1.0, 1.5)], float(m.abbe()).hex())
print(type(m.n(0.4)).__name__, type(m.n(np.array([0.4]))).__name__)
m.coefficients = [1.0, 0.58]
print(outcome(m.n, 1.0).decode())
m = MaterialFile(file(BASE))
print([float(m.n(w)).hex() for w in (0.4, 0.6, 1.5)], float(m.abbe()).hex())
m.coefficients = [1.0, 0.58, 0.12, 0.87]
print(outcome(m.n, 1.0).decode())
import optiland.materials.material_file as mf
print(sorted(k for k in vars(MaterialFile) if not k.startswith('__')))

# 4. sample lenses: indices seen by the ray tracer and a paraxial quantity
for cls in (CookeTriplet, DoubleGauss, ReverseTelephoto, TessarLens,
            PetzvalLens, Telephoto, HeliarLens, ObjectiveUS008879901,
            EyepieceErfle, InfraredTriplet, UVProjectionLens, Objective60x):
    buf = io.StringIO()
    with contextlib.redirect_stdout(buf):
        lens = cls()
        ws = lens.wavelengths.get_wavelengths()
        n = np.array([lens.n(w) for w in ws])
        f = lens.paraxial.f2()
    print(cls.__name__, hashlib.sha1(fbytes(n)).hexdigest(),
          float(np.asarray(f).ravel()[0]).hex())

# 5. catalogue lookups through Material
for args in (('N-BK7',), ('BK7', 'schott'), ('SF6', 'schott'), ('CaF2',),
             ('YbF3',), ('SiO2', 'Malitson'), ('J-BK7A', 'hikari')):
    buf = io.StringIO()
    with contextlib.redirect_stdout(buf):
        m = Material(*args)
    print(args, os.path.basename(m.filename), m._n_formula,
          float(m.n(0.5875618)).hex(), float(m.abbe()).hex())

"""Behaviour digest for the optimisation front ends, variables and operands.

Run with
    cd /tmp/tw6/C14 && PYTHONPATH=/tmp/tw6/C14 /venv/bin/python equiv.py
The output must be byte-identical on the unchanged tree and with the patch
applied.  All floats are printed with float.hex() so that a single ulp of
difference is visible.
"""
import contextlib
import hashlib
import io
import warnings

import numpy as np

from optiland import optimization
from optiland.optimization.variable import Variable
from optiland.optimization.operand import Operand
from optiland.tolerancing.compensator import CompensatorOptimizer
from optiland.geometries import PolynomialGeometry, ChebyshevPolynomialGeometry
from optiland.coordinate_system import CoordinateSystem
from optiland.samples.microscopes import (Microscope20x, Objective60x,
                                          UVReflectingMicroscope)
from optiland.samples.objectives import (CookeTriplet, DoubleGauss,
                                         ReverseTelephoto, TessarLens)
from optiland.samples.simple import (AsphericSinglet, CementedAchromat,
                                     Edmund_49_847, SingletStopSurf2)

warnings.simplefilter('ignore')


# --------------------------------------------------------------------------
# helpers
# --------------------------------------------------------------------------
def hx(v):
    """Exact textual form of a scalar / array / None / nested sequence."""
    if v is None:
        return 'None'
    if isinstance(v, (tuple, list)):
        return '[' + ', '.join(hx(e) for e in v) + ']'
    a = np.asarray(v)
    if a.ndim == 0:
        return type(v).__name__ + ':' + float(a).hex()
    return ('arr' + str(a.shape) + str(a.dtype) + ':'
            + hashlib.sha1(np.ascontiguousarray(a, dtype=float).tobytes())
            .hexdigest()[:16] + ':' + ','.join(float(e).hex()
                                               for e in a.ravel()[:6]))


def lens_state(lens):
    """Digest of everything a variable / pickup / solve can touch."""
    sg = lens.surface_group
    parts = [np.asarray(sg.radii, dtype=float),
             np.asarray(sg.conic, dtype=float),
             np.asarray(sg.positions, dtype=float).ravel(),
             np.asarray(lens.n(), dtype=float)]
    for s in sg.surfaces:
        cs = s.geometry.cs
        parts.append(np.array([float(np.ravel(q)[0]) for q in
                               (cs.x, cs.y, cs.z, cs.rx, cs.ry, cs.rz)]))
        c = getattr(s.geometry, 'c', None)
        if c is not None:
            parts.append(np.asarray(c, dtype=float).ravel())
    raw = b''.join(np.ascontiguousarray(p, dtype=float).tobytes()
                   for p in parts)
    return hashlib.sha1(raw).hexdigest()[:20]


def out(*args):
    print(*args)


def guarded(label, fn):
    try:
        res = fn()
        out(label, 'OK', res)
        return res
    except Exception as e:  # noqa
        out(label, 'EXC', type(e).__name__, str(e))
        return None


def captured(fn):
    buf = io.StringIO()
    with contextlib.redirect_stdout(buf):
        fn()
    return hashlib.sha1(buf.getvalue().encode()).hexdigest()[:16], \
        len(buf.getvalue())


def describe_result(tag, optimizer, result):
    problem = optimizer.problem
    out(tag, 'x', hx(result.x), 'fun', hx(result.fun))
    out(tag, 'values', hx([v.value for v in problem.variables]))
    out(tag, 'bounds', hx([v.bounds for v in problem.variables]))
    out(tag, 'merit', hx(problem.sum_squared()), 'rss', hx(problem.rss()),
        'funarr', hx(problem.fun_array()))
    out(tag, 'initial_value', hx(problem.initial_value),
        'stack', hx([list(s) for s in optimizer._x]))
    for lens in {id(v.optic): v.optic for v in problem.variables}.values():
        out(tag, 'lens', lens_state(lens))


# --------------------------------------------------------------------------
# A. variables: every type, scaled / unscaled, bounded / unbounded
# --------------------------------------------------------------------------
def poly_lens(cheby=False, coeffs=None):
    lens = AsphericSinglet()
    if cheby:
        geo = ChebyshevPolynomialGeometry(CoordinateSystem(), 100,
                                          coefficients=np.zeros((3, 3))
                                          if coeffs is None else coeffs,
                                          norm_x=20, norm_y=20)
    elif coeffs is None:
        geo = PolynomialGeometry(CoordinateSystem(), 100)
    else:
        geo = PolynomialGeometry(CoordinateSystem(), 100, coefficients=coeffs)
    lens.surface_group.surfaces[1].geometry = geo
    return lens


def section_variables():
    out('== A variables')
    specs = [
        (CookeTriplet, 'radius', dict(surface_number=1)),
        (CookeTriplet, 'radius', dict(surface_number=4, min_val=-500.,
                                      max_val=500.)),
        (DoubleGauss, 'radius', dict(surface_number=2, min_val=10.)),
        (TessarLens, 'thickness', dict(surface_number=2, max_val=30.)),
        (TessarLens, 'thickness', dict(surface_number=3, min_val=0.5,
                                       max_val=12.)),
        (Microscope20x, 'conic', dict(surface_number=1, min_val=-1,
                                      max_val=1)),
        (Microscope20x, 'index', dict(surface_number=1, min_val=1.2,
                                      max_val=1.8, wavelength=0.5)),
        (Objective60x, 'index', dict(surface_number=3, wavelength=0.55)),
        (AsphericSinglet, 'asphere_coeff', dict(surface_number=1,
                                                coeff_number=0,
                                                min_val=-1e-3,
                                                max_val=1e-3)),
        (AsphericSinglet, 'asphere_coeff', dict(surface_number=1,
                                                coeff_number=2)),
        (ReverseTelephoto, 'tilt', dict(surface_number=2, axis='x',
                                        min_val=-0.1, max_val=0.1)),
        (ReverseTelephoto, 'tilt', dict(surface_number=2, axis='y')),
        (Edmund_49_847, 'decenter', dict(surface_number=1, axis='x',
                                         min_val=-1., max_val=None)),
        (Edmund_49_847, 'decenter', dict(surface_number=2, axis='y',
                                         max_val=2.)),
        (lambda: poly_lens(coeffs=np.arange(9.).reshape(3, 3) * 1e-4),
         'polynomial_coeff', dict(surface_number=1, coeff_index=(1, 2),
                                  min_val=-1., max_val=1.)),
        (poly_lens, 'polynomial_coeff', dict(surface_number=1,
                                             coeff_index=(2, 3))),
        (lambda: poly_lens(cheby=True), 'chebyshev_coeff',
         dict(surface_number=1, coeff_index=(1, 1), min_val=-0.5)),
        (lambda: poly_lens(cheby=True), 'chebyshev_coeff',
         dict(surface_number=1, coeff_index=(4, 0))),
    ]
    probes = [0.0, -0.25, 0.3125, 1.75, 1e-3]
    for make, vtype, kw in specs:
        for scaling in (True, False):
            lens = make()
            var = Variable(lens, vtype, apply_scaling=scaling, **kw)
            tag = f'A {vtype} {sorted(kw.items())} s={scaling}'
            out(tag, 'str', str(var), 'cls', type(var.variable).__name__)
            out(tag, 'value', hx(var.value), 'init', hx(var.initial_value),
                'bounds', hx(var.bounds), 'raw', hx([var.min_val,
                                                     var.max_val]))
            for p in probes:
                var.update(p)
                lens.update()
                out(tag, 'set', hx(p), 'get', hx(var.value),
                    'lens', lens_state(lens))
            var.reset()
            out(tag, 'reset', hx(var.value), lens_state(lens))
            out(tag, 'attrs', sorted(k for k in vars(var) if k != 'variable'
                                     and k != 'optic'))

    lens = CookeTriplet()
    guarded('A invalid type', lambda: Variable(lens, 'curvature',
                                               surface_number=1))
    guarded('A invalid type None', lambda: Variable(lens, None,
                                                    surface_number=1))
    guarded('A unhashable type', lambda: Variable(lens, ['radius'],
                                                  surface_number=1))
    guarded('A missing kw', lambda: Variable(lens, 'index',
                                             surface_number=1))
    guarded('A bad axis', lambda: Variable(lens, 'tilt', surface_number=1,
                                           axis='z'))
    out('A unknown kw', captured(lambda: guarded(
        'A unknown kw inner',
        lambda: str(Variable(lens, 'radius', surface_number=1, foo=3)))))
    guarded('A string bound', lambda: Variable(
        lens, 'radius', surface_number=1, min_val='a', max_val=3.).bounds)
    guarded('A string bound unscaled', lambda: Variable(
        lens, 'radius', surface_number=1, min_val='a', max_val=3.,
        apply_scaling=False).bounds)
    guarded('A array bound', lambda: hx(Variable(
        lens, 'thickness', surface_number=1, min_val=np.array([1., 2.]),
        max_val=np.float32(7.)).bounds))
    out('A allowed', sorted(Variable.allowed_attributes()))


# --------------------------------------------------------------------------
# B. merit function pieces
# --------------------------------------------------------------------------
def build_problem(lens, variables, operands):
    problem = optimization.OptimizationProblem()
    for vtype, kw in variables:
        problem.add_variable(lens, vtype, **kw)
    for otype, target, weight, data in operands:
        data = dict(data)
        data.setdefault('optic', lens)
        problem.add_operand(otype, target, weight, data)
    return problem


def section_problem():
    out('== B merit function')
    lens = CookeTriplet()
    problem = build_problem(
        lens,
        [('radius', dict(surface_number=1, min_val=10, max_val=60)),
         ('thickness', dict(surface_number=2)),
         ('radius', dict(surface_number=5, apply_scaling=False))],
        [('f2', 50, 1.0, {}),
         ('SC_sum', 0.0, 2.5, {}),
         ('rms_spot_size', 0.0, 10.0,
          dict(surface_number=-1, Hx=0, Hy=0.7, num_rays=5,
               wavelength=0.55, distribution='hexapolar')),
         ('real_y_intercept', 12.0, 0.3,
          dict(surface_number=-1, Hx=0, Hy=1, Px=0, Py=0,
               wavelength=0.55))])
    out('B funarr', hx(problem.fun_array()), 'sum', hx(problem.sum_squared()),
        'rss', hx(problem.rss()))
    for op in problem.operands:
        out('B op', str(op), hx(op.value), hx(op.delta()), hx(op.fun()))
    out('B info', captured(problem.info))
    optimizer = optimization.OptimizerGeneric(problem)
    out('B initial', hx(problem.initial_value))
    for x in ([-0.7, -0.4, -20.0], [-0.75, -0.35, -21.5],
              np.array([-0.6, 0.1, -19.0])):
        f = optimizer._fun(x)
        out('B _fun', hx(x), type(f).__name__, hx(f), 'values',
            hx([v.value for v in problem.variables]), lens_state(lens),
            'sum', hx(problem.sum_squared()))
    guarded('B _fun short x', lambda: hx(optimizer._fun([-0.5])))
    out('B after short', hx([v.value for v in problem.variables]),
        lens_state(lens))
    guarded('B _fun long x', lambda: hx(optimizer._fun([-0.7, -0.4, -20., 9])))
    out('B info2', captured(problem.info))

    # empty problems
    empty = optimization.OptimizationProblem()
    out('B empty', hx(empty.fun_array()), hx(empty.sum_squared()),
        hx(empty.rss()))
    opt = optimization.OptimizerGeneric(empty)
    f = opt._fun([])
    out('B empty _fun', type(f).__name__, hx(f), hx(empty.initial_value))
    guarded('B empty undo', lambda: opt.undo())

    # NaN objective
    broken = UVReflectingMicroscope()
    broken.set_radius(0.2, 3)
    pb = optimization.OptimizationProblem()
    pb.add_operand('rms_spot_size', 0.0, 1.0,
                   {'optic': broken, 'Hx': 0.0, 'Hy': 0.1, 'wavelength': 0.5,
                    'num_rays': 100, 'surface_number': -1})
    ob = optimization.OptimizerGeneric(pb)
    f = ob._fun(np.array([0.2]))
    out('B nan _fun', type(f).__name__, hx(f), hx(pb.initial_value),
        hx(pb.sum_squared()))
    pb.add_variable(broken, 'radius', surface_number=3)
    f = ob._fun(np.array([-0.998]))
    out('B nan _fun var', type(f).__name__, hx(f), lens_state(broken))

    # unknown operand
    bad = optimization.OptimizationProblem()
    bad.add_operand('nope', 0.0, 1.0, {})
    guarded('B unknown operand', lambda: bad.sum_squared())
    guarded('B unknown operand optimizer',
            lambda: optimization.OptimizerGeneric(bad))
    out('B operand str', str(Operand('rms_spot_size', 1, 2, {})))

    # several optics + pickups + solves: update_optics
    l1, l2 = CementedAchromat(), SingletStopSurf2()
    l1.pickups.add(1, 'radius', 3, scale=-1.5, offset=2)
    l1.solves.add('marginal_ray_height', 4, height=0.0)
    l2.pickups.add(1, 'thickness', 2, scale=2, offset=1)
    multi = optimization.OptimizationProblem()
    multi.add_variable(l1, 'radius', surface_number=1, min_val=5,
                       max_val=500)
    multi.add_variable(l2, 'thickness', surface_number=1, min_val=1,
                       max_val=20)
    multi.add_variable(l1, 'thickness', surface_number=1)
    multi.add_operand('f2', 80, 1, {'optic': l1})
    multi.add_operand('f2', 60, 1, {'optic': l2})
    om = optimization.OptimizerGeneric(multi)
    for x in ([-0.5, -0.3, -0.2], [0.2, 0.1, 0.0]):
        out('B multi _fun', hx(om._fun(x)), lens_state(l1), lens_state(l2))
    multi.variables[0].update(-0.4)
    multi.variables[1].update(0.7)
    out('B multi stale', lens_state(l1), lens_state(l2))
    multi.update_optics()
    out('B multi updated', lens_state(l1), lens_state(l2),
        hx(multi.sum_squared()))
    return multi, om, l1, l2


# --------------------------------------------------------------------------
# C. optimiser front ends
# --------------------------------------------------------------------------
def triplet_problem(bounded=True, scaled=True, pickups=False):
    lens = CookeTriplet()
    if pickups:
        lens.pickups.add(1, 'radius', 6, scale=-1, offset=0)
        lens.solves.add('marginal_ray_height', 7, height=0.0)
    b = (lambda lo, hi: dict(min_val=lo, max_val=hi)) if bounded else \
        (lambda lo, hi: {})
    variables = [
        ('radius', dict(surface_number=1, apply_scaling=scaled,
                        **b(15., 40.))),
        ('radius', dict(surface_number=2, apply_scaling=scaled,
                        **b(-900., -100.))),
        ('thickness', dict(surface_number=2, apply_scaling=scaled,
                           **b(2., 12.))),
    ]
    operands = [('f2', 52., 1.0, {}),
                ('SC_sum', 0.0, 5.0, {}),
                ('rms_spot_size', 0.0, 20.0,
                 dict(surface_number=-1, Hx=0, Hy=0., num_rays=4,
                      wavelength=0.55, distribution='hexapolar'))]
    return lens, build_problem(lens, variables, operands)


def run_cycle(tag, lens, optimizer, kwargs_list):
    out(tag, 'start', lens_state(lens), hx(optimizer.problem.sum_squared()))
    for i, kw in enumerate(kwargs_list):
        np.random.seed(1234 + i)
        res = guarded(f'{tag} run{i} {sorted(kw.items())}',
                      lambda: type(optimizer.optimize(**kw)).__name__)
        if res is None:
            out(tag, 'after exc', lens_state(lens),
                hx([list(s) for s in optimizer._x]))
            continue
    return


def section_optimizers():
    out('== C optimisers')
    # --- OptimizerGeneric: methods, bounded / unbounded, scaled / unscaled
    for bounded in (True, False):
        for scaled in (True, False):
            for method in (None, 'L-BFGS-B', 'Nelder-Mead', 'SLSQP', 'BFGS',
                           'bfgs', 'Powell'):
                lens, problem = triplet_problem(bounded, scaled,
                                                pickups=(method is None))
                optimizer = optimization.OptimizerGeneric(problem)
                tag = f'C generic b={bounded} s={scaled} m={method}'
                s0 = lens_state(lens)
                try:
                    result = optimizer.optimize(method=method, maxiter=6,
                                                disp=False, tol=1e-4)
                except Exception as e:  # noqa
                    out(tag, 'EXC', type(e).__name__, str(e), 'stack',
                        hx([list(s) for s in optimizer._x]),
                        lens_state(lens) == s0)
                    continue
                describe_result(tag, optimizer, result)
                out(tag, 'refun', hx(optimizer._fun(result.x)),
                    'not worse', bool(problem.sum_squared()
                                      <= problem.initial_value))
                optimizer.undo()
                out(tag, 'undo', lens_state(lens) == s0, lens_state(lens),
                    hx([list(s) for s in optimizer._x]))
                optimizer.undo()  # empty stack: no-op
                out(tag, 'undo2', lens_state(lens))

    # --- optimise / optimise / undo / optimise / undo / undo
    lens, problem = triplet_problem(True, True, pickups=True)
    optimizer = optimization.OptimizerGeneric(problem)
    tag = 'C generic sequence'
    for step in ('opt', 'opt', 'undo', 'opt', 'undo', 'undo', 'undo'):
        if step == 'opt':
            r = optimizer.optimize(maxiter=3, disp=False, tol=1e-3)
            describe_result(tag + ' opt', optimizer, r)
        else:
            optimizer.undo()
            out(tag, 'undo', lens_state(lens),
                hx([v.value for v in problem.variables]),
                hx([list(s) for s in optimizer._x]),
                hx(problem.sum_squared()))
    out(tag, 'disp', captured(lambda: optimizer.optimize(
        method='L-BFGS-B', maxiter=2, disp=True))[1] >= 0)

    # --- LeastSquares
    for bounded in (True, False):
        for scaled in (True, False):
            lens, problem = triplet_problem(bounded, scaled, pickups=bounded)
            optimizer = optimization.LeastSquares(problem)
            tag = f'C lsq b={bounded} s={scaled}'
            s0 = lens_state(lens)
            result = optimizer.optimize(maxiter=5, disp=False, tol=1e-4)
            describe_result(tag, optimizer, result)
            result = optimizer.optimize(disp=False)
            describe_result(tag + ' again', optimizer, result)
            optimizer.undo()
            optimizer.undo()
            out(tag, 'undo', lens_state(lens) == s0, lens_state(lens))
    lens = Microscope20x()
    problem = build_problem(lens, [('radius', dict(surface_number=1,
                                                   min_val=-1000,
                                                   max_val=None)),
                                   ('conic', dict(surface_number=1,
                                                  min_val=None, max_val=1))],
                            [('f2', 90, 1.0, {})])
    optimizer = optimization.LeastSquares(problem)
    box = {}
    digest = captured(lambda: box.setdefault('r', optimizer.optimize(
        maxiter=20, disp=True, tol=1e-3)))
    out('C lsq verbose', digest)
    describe_result('C lsq verbose', optimizer, box['r'])

    # --- DualAnnealing
    lens, problem = triplet_problem(True, True, pickups=True)
    optimizer = optimization.DualAnnealing(problem)
    s0 = lens_state(lens)
    np.random.seed(7)
    result = optimizer.optimize(maxiter=3, disp=False)
    describe_result('C da', optimizer, result)
    optimizer.undo()
    out('C da undo', lens_state(lens) == s0)
    lens, problem = triplet_problem(False, True)
    problem.variables[0].min_val = 1.0   # one-sided bound only
    optimizer = optimization.DualAnnealing(problem)
    s0 = lens_state(lens)
    guarded('C da nobounds', lambda: optimizer.optimize(maxiter=3))
    out('C da nobounds stack', hx([list(s) for s in optimizer._x]),
        lens_state(lens) == s0)
    optimizer.undo()
    out('C da nobounds undo', lens_state(lens) == s0,
        hx([list(s) for s in optimizer._x]))

    # --- DifferentialEvolution: in-process and multi-process workers
    for workers in (1, -1, 2):
        lens = Microscope20x()
        lens.pickups.add(1, 'radius', 2, scale=1, offset=0.5)
        problem = build_problem(
            lens,
            [('index', dict(surface_number=1, min_val=1.2, max_val=1.8,
                            wavelength=0.5)),
             ('thickness', dict(surface_number=1, min_val=1, max_val=10,
                                apply_scaling=(workers != 2)))],
            [('f2', 90, 1.0, {}), ('SC_sum', 0.0, 1.0, {})])
        optimizer = optimization.DifferentialEvolution(problem)
        s0 = lens_state(lens)
        np.random.seed(99)
        box = {}
        dig = captured(lambda: box.setdefault('r', optimizer.optimize(
            maxiter=2, disp=(workers == 1), workers=workers)))
        tag = f'C de w={workers}'
        out(tag, 'printed', dig)
        describe_result(tag, optimizer, box['r'])
        out(tag, 'in bounds', all(
            lo <= v.value <= hi for v, (lo, hi) in
            ((v, v.bounds) for v in problem.variables)))
        np.random.seed(100)
        r2 = optimizer.optimize(maxiter=1, disp=False, workers=workers)
        describe_result(tag + ' again', optimizer, r2)
        optimizer.undo()
        optimizer.undo()
        out(tag, 'undo', lens_state(lens) == s0)
    lens = Microscope20x()
    problem = build_problem(lens, [('index', dict(surface_number=1,
                                                  wavelength=0.5))],
                            [('f2', 95, 1.0, {})])
    optimizer = optimization.DifferentialEvolution(problem)
    guarded('C de nobounds', lambda: optimizer.optimize(maxiter=2,
                                                        disp=False))
    out('C de nobounds stack', hx([list(s) for s in optimizer._x]))
    # start point outside the bounds: scipy raises after the stack push
    problem = build_problem(lens, [('thickness', dict(surface_number=1,
                                                      min_val=10,
                                                      max_val=100))],
                            [('f2', 95, 1.0, {})])
    optimizer = optimization.DifferentialEvolution(problem)
    s0 = lens_state(lens)
    guarded('C de x0 outside', lambda: optimizer.optimize(maxiter=2,
                                                          disp=False,
                                                          workers=1))
    out('C de x0 outside stack', hx([list(s) for s in optimizer._x]),
        lens_state(lens) == s0)
    optimizer.undo()
    out('C de x0 outside undo', hx([list(s) for s in optimizer._x]),
        lens_state(lens) == s0)


# --------------------------------------------------------------------------
# D. the "never worse than the start" guard
# --------------------------------------------------------------------------
class FakeResult:
    def __init__(self, x, fun):
        self.x = x
        self.fun = fun


def section_guard():
    out('== D keep start')
    for cls in (optimization.OptimizerGeneric, optimization.LeastSquares,
                optimization.DualAnnealing,
                optimization.DifferentialEvolution):
        lens, problem = triplet_problem(True, True, pickups=True)
        optimizer = cls(problem)
        x0 = [v.value for v in problem.variables]
        f0 = optimizer._fun(x0)
        cases = {
            'worse scalar': FakeResult(np.array([x0[0] + 0.2, x0[1],
                                                 x0[2] + 0.3]), 123.0),
            'worse array fun': FakeResult(np.array([x0[0] + 0.2, x0[1],
                                                    x0[2] + 0.3]),
                                          np.array([123.0])),
            'equal': FakeResult(np.array(x0), f0),
            'better': FakeResult(np.array([x0[0], x0[1], x0[2] - 1e-3]),
                                 -1.0),
            'nan x': FakeResult(np.array([np.nan, x0[1], x0[2]]), 5.0),
            'list x': FakeResult([x0[0] - 0.3, x0[1], x0[2]], 7),
        }
        for name, res in cases.items():
            x_before = res.x
            optimizer._keep_start_if_better(res, x0)
            out('D', cls.__name__, name, 'x', hx(res.x),
                type(res.x).__name__, 'same obj', res.x is x_before,
                'fun', hx(res.fun), type(res.fun).__name__,
                'lens values', hx([v.value for v in problem.variables]),
                lens_state(lens))

    # a run that scipy ends uphill: huge first step from a steep start
    lens = CookeTriplet()
    problem = build_problem(lens, [('thickness', dict(surface_number=5,
                                                      apply_scaling=False)),
                                   ('radius', dict(surface_number=1,
                                                   apply_scaling=False))],
                            [('rms_spot_size', 0.0, 1e3,
                              dict(surface_number=-1, Hx=0, Hy=1.,
                                   num_rays=6, wavelength=0.55,
                                   distribution='hexapolar'))])
    optimizer = optimization.OptimizerGeneric(problem)
    s0 = lens_state(lens)
    r = optimizer.optimize(method='Nelder-Mead', maxiter=1, disp=False)
    describe_result('D uphill', optimizer, r)
    out('D uphill not worse', bool(problem.sum_squared()
                                   <= problem.initial_value))
    optimizer.undo()
    out('D uphill undo', lens_state(lens) == s0)


# --------------------------------------------------------------------------
# E. compensator
# --------------------------------------------------------------------------
def section_compensator():
    out('== E compensator')
    for method in ('generic', 'least_squares', 'simplex', None):
        lens = CementedAchromat()
        comp = CompensatorOptimizer(method=method, tol=1e-6)
        out('E', method, 'has_variables', comp.has_variables)
        comp.add_variable(lens, 'thickness', surface_number=3)
        comp.add_operand('f2', 101.0, 1.0, {'optic': lens})
        out('E', method, 'has_variables', comp.has_variables,
            sorted(comp._optimizer_map))
        box = {}

        def go():
            box['r'] = comp.run()
        try:
            dig = captured(go)
        except Exception as e:  # noqa
            out('E', method, 'EXC', type(e).__name__, str(e),
                lens_state(lens))
            continue
        r = box['r']
        out('E', method, hx(r.x), hx(r.fun), lens_state(lens),
            hx(comp.sum_squared()), hx(comp.initial_value), dig[1] >= 0)
    guarded('E unhashable method',
            lambda: CompensatorOptimizer(method=['generic']).get_optimizer())


if __name__ == '__main__':
    section_variables()
    multi, om, l1, l2 = section_problem()
    # optimise a two-optic problem with pickups and solves on one of them
    s1, s2 = lens_state(l1), lens_state(l2)
    r = om.optimize(maxiter=4, disp=False)
    describe_result('B multi optimize', om, r)
    om.undo()
    out('B multi undo', lens_state(l1) == s1, lens_state(l2) == s2,
        lens_state(l1), lens_state(l2))
    section_optimizers()
    section_guard()
    section_compensator()

"""Equivalence digest for change C10-tw-1 (Zernike index enumeration).

Prints exact index lists of the three families, hashes of term values,
fits and lens decompositions.  Output must be identical before / after.
"""
import hashlib
import warnings
import numpy as np

warnings.filterwarnings('ignore')

from optiland import zernike
from optiland.wavefront import ZernikeOPD
from optiland.samples.objectives import (CookeTriplet, DoubleGauss,
                                         ReverseTelephoto, TessarLens)
from optiland.samples.simple import Edmund_49_847, CementedAchromat
from optiland.samples.telescopes import HubbleTelescope

FAMILIES = {'standard': zernike.ZernikeStandard,
            'noll': zernike.ZernikeNoll,
            'fringe': zernike.ZernikeFringe}


def digest(*arrays):
    h = hashlib.sha1()
    for a in arrays:
        a = np.ascontiguousarray(np.asarray(a, dtype=np.float64))
        h.update(repr(a.shape).encode())
        h.update(a.tobytes())
    return h.hexdigest()


# 1. the index tables, exactly, with element types
for name, cls in FAMILIES.items():
    z = cls()
    for label, idx in (('attr', z.indices), ('call', z._generate_indices())):
        print(name, label, type(idx).__name__, len(idx),
              sorted({(type(p).__name__, type(p[0]).__name__,
                       type(p[1]).__name__) for p in idx}))
        print(repr(idx))
    print(name, 'unique', len(set(z.indices)) == len(z.indices))
    # fresh list each time (no shared state between instances)
    print(name, 'fresh', z.indices is not cls().indices,
          z._generate_indices() is not z._generate_indices())

# 2. term values on a set of pupil points, every supported length
rng = np.random.default_rng(12345)
r = np.concatenate([[0.0, 1.0, 0.5], rng.uniform(0, 1, 40)])
phi = np.concatenate([[0.0, np.pi, -np.pi / 3], rng.uniform(-np.pi, np.pi, 40)])
for name, cls in FAMILIES.items():
    for n_terms in (0, 1, 2, 7, 36, 37, 66, 119, 120):
        c = rng.normal(size=n_terms)
        z = cls(list(c))
        terms = z.terms(r, phi)
        print(name, n_terms, len(terms),
              digest(*terms) if terms else 'empty',
              digest(z.poly(r, phi)))
    try:
        cls([0.0] * 121)
    except ValueError as e:
        print(name, 'ValueError', e)
    # edge radial value
    z = cls([1.0] * 120)
    print(name, 'edge', digest(*[z._radial_term(n, m, 1.0)
                                 for n, m in z.indices]))

# 3. fitting synthetic data
x = rng.uniform(-1, 1, 400)
y = rng.uniform(-1, 1, 400)
keep = x**2 + y**2 <= 1
x, y = x[keep], y[keep]
for name, cls in FAMILIES.items():
    for n_terms in (1, 3, 10, 21, 36, 37):
        c = rng.normal(size=n_terms)
        data = cls(list(c)).poly(np.sqrt(x**2 + y**2), np.arctan2(y, x))
        fit = zernike.ZernikeFit(x, y, data, name, n_terms)
        print(name, n_terms, digest(fit.coeffs),
              bool(np.allclose(fit.coeffs, c, atol=1e-9)))

# 4. lens wavefront decompositions
cases = [(CookeTriplet, (0, 0), 0.55), (CookeTriplet, (0, 1), 0.48),
         (DoubleGauss, (0, 0.7), 0.5876), (ReverseTelephoto, (0, 1), 0.55),
         (TessarLens, (0, 0.5), 0.65), (Edmund_49_847, (0, 1), 0.55),
         (CementedAchromat, (0, 0), 0.5), (HubbleTelescope, (0, 1), 0.55)]
for lens_cls, field, wl in cases:
    for name, n_terms in (('fringe', 37), ('standard', 28), ('noll', 15)):
        zo = ZernikeOPD(lens_cls(), field, wl, num_rings=6,
                        zernike_type=name, num_terms=n_terms)
        resid = zo.zernike.poly(zo.radius, zo.phi) - zo.z
        print(lens_cls.__name__, field, wl, name, n_terms,
              digest(zo.coeffs), digest(zo.z), digest(resid))

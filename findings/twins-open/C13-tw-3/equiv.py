"""Equivalence digest for C13-tw-3 (NewtonRaphsonGeometry.distance /
_intersection_sphere: hoisted temporaries, extracted _sag_error)."""
import hashlib
import warnings
import numpy as np

warnings.simplefilter('ignore')

from optiland.optic import Optic
from optiland.samples.simple import AsphericSinglet
from optiland.rays import RealRays
from optiland.coordinate_system import CoordinateSystem
from optiland.geometries import (EvenAsphere, PolynomialGeometry,
                                 ChebyshevPolynomialGeometry)
from optiland.analysis import SpotDiagram, RayFan
from optiland.wavefront import OPD

REC = ('x', 'y', 'z', 'L', 'M', 'N', 'intensity', 'opd')


def dig(*arrays):
    h = hashlib.sha1()
    for a in arrays:
        a = np.ascontiguousarray(np.asarray(a, dtype=np.float64))
        h.update(repr(a.shape).encode())
        h.update(a.tobytes())
    return h.hexdigest()[:16]


def rays_dig(rays):
    return dig(rays.x, rays.y, rays.z, rays.L, rays.M, rays.N, rays.i,
               rays.opd)


def records(optic):
    return dig(*[getattr(s, n) for s in optic.surface_group.surfaces
                 for n in REC])


def singlet(surface_type, radius=20.0, conic=0.0, dy=0.0, rx=0.0,
            field_type='angle', obj_t=np.inf, **kw):
    lens = Optic()
    lens.add_surface(index=0, radius=np.inf, thickness=obj_t)
    lens.add_surface(index=1, thickness=7, radius=radius, conic=conic,
                     is_stop=True, material='N-SF11',
                     surface_type=surface_type, dy=dy, rx=rx, **kw)
    lens.add_surface(index=2, thickness=21.5)
    lens.add_surface(index=3)
    lens.set_aperture(aperture_type='EPD', value=12.0)
    lens.set_field_type(field_type=field_type)
    lens.add_field(y=0)
    lens.add_field(y=5)
    lens.add_wavelength(value=0.587, is_primary=True)
    lens.add_wavelength(value=0.486)
    return lens


poly_c = np.zeros((4, 4))
poly_c[2, 0] = 1e-3
poly_c[0, 2] = -2e-3
poly_c[1, 1] = 5e-4
poly_c[3, 1] = 1e-5
cheb_c = np.zeros((4, 4))
cheb_c[1, 1] = 0.05
cheb_c[2, 0] = 0.02
cheb_c[0, 3] = -0.01

LENSES = {
    'AsphericSinglet': AsphericSinglet,
    'asphere conic': lambda: singlet('even_asphere', conic=-0.8,
                                     coefficients=[1e-4, -2e-6]),
    'asphere flat base': lambda: singlet('even_asphere', radius=np.inf,
                                         coefficients=[1.2e-2, -3e-6, 1e-8]),
    'asphere concave tight tol': lambda: singlet(
        'even_asphere', radius=-35.0, conic=1.5, tol=1e-12, max_iter=50,
        coefficients=[0.0, 3e-6]),
    'asphere 1 iteration': lambda: singlet(
        'even_asphere', max_iter=1, coefficients=[-2.2e-4, -4.7e-6]),
    'asphere 2 iterations loose': lambda: singlet(
        'even_asphere', max_iter=2, tol=1e-3, coefficients=[-2.2e-4]),
    'asphere 0 iterations': lambda: singlet(
        'even_asphere', max_iter=0, coefficients=[-2.2e-4]),
    'asphere strong (rays fail)': lambda: singlet(
        'even_asphere', radius=7.0, coefficients=[5e-3, 1e-3]),
    'asphere decentred tilted': lambda: singlet(
        'even_asphere', dy=1.5, rx=0.05, coefficients=[-1e-4, 2e-6]),
    'asphere finite object': lambda: singlet(
        'even_asphere', obj_t=60.0, field_type='object_height',
        coefficients=[-1e-4, 2e-6]),
    'polynomial': lambda: singlet('polynomial', radius=25.0, conic=-0.3,
                                  coefficients=poly_c),
    'polynomial flat base': lambda: singlet('polynomial', radius=np.inf,
                                            coefficients=poly_c * 3),
    'chebyshev': lambda: singlet('chebyshev', radius=30.0, conic=0.2,
                                 coefficients=cheb_c, norm_x=10, norm_y=10),
    'chebyshev flat base': lambda: singlet('chebyshev', radius=np.inf,
                                           coefficients=cheb_c, norm_x=12,
                                           norm_y=9),
}


def run(label, fn):
    try:
        out = fn()
    except Exception as e:  # noqa
        out = 'EXC %s: %s' % (type(e).__name__, e)
    print(label, out)


for name, make in LENSES.items():
    optic = make()
    wl = optic.primary_wavelength
    for H in [(0, 0), (0, 1), (0.6, -0.8)]:
        for dist, n in [('hexapolar', 6), ('uniform', 9), ('line_y', 11)]:
            run('%s trace %s %s' % (name, H, dist),
                lambda: (rays_dig(optic.trace(*H, wl, n, dist)),
                         records(optic)))
    # one ray alone and the same ray among others (the break criterion of the
    # iteration is the maximum residual over all rays of the call)
    run(name + ' single', lambda: rays_dig(
        optic.trace_generic(0.0, 0.5, 0.2, -0.7, wl)))
    run(name + ' among', lambda: rays_dig(optic.trace_generic(
        0.0, 0.5, np.array([0.2, 0.0, 1.0, -0.99]),
        np.array([-0.7, 0.0, 0.0, 0.1]), wl)))
    run(name + ' oversize pupil', lambda: rays_dig(optic.trace_generic(
        0.0, 1.0, np.array([0.0, 1.5, -2.5, 4.0]),
        np.array([3.0, 0.0, 1.0, -4.0]), 0.486)))
    run(name + ' paraxial', lambda: dig(*optic.paraxial.marginal_ray(),
                                        optic.paraxial.f2()))
    run(name + ' spot', lambda: dig(*[np.concatenate(
        [np.ravel(v) for v in w]) for f in SpotDiagram(
            optic, num_rings=4).data for w in f]))
    run(name + ' fan', lambda: dig(*[RayFan(optic, num_points=21).data[k]
                                     for k in ('Px', 'Py')]))
    run(name + ' opd', lambda: dig(*OPD(optic, (0, 1), wl,
                                        num_rings=4).data[0][0]))

# the geometry classes called directly, with hand-made ray bundles: normal
# incidence, oblique, grazing, rays starting behind / on / far from the
# surface, rays missing the base sphere (negative discriminant), zero
# direction vectors (a == 0 arm), a single ray, N == 0
wl = 0.55


def bundle(kind):
    if kind == 'normal':
        y = np.linspace(-8, 8, 9)
        return RealRays(np.zeros(9), y, np.full(9, -5.0), np.zeros(9),
                        np.zeros(9), np.ones(9), np.ones(9), np.full(9, wl))
    if kind == 'oblique':
        x = np.linspace(-6, 6, 7)
        L = np.full(7, 0.2)
        M = np.linspace(-0.3, 0.3, 7)
        N = np.sqrt(1 - L**2 - M**2)
        return RealRays(x, x[::-1] * 0.5, np.full(7, -3.0), L, M, N,
                        np.ones(7), np.full(7, wl))
    if kind == 'behind/on/far':
        return RealRays([0.0, 1.0, 2.0, 0.0], [0.0, 1.0, -2.0, 3.0],
                        [5.0, 0.0, -1e4, 1e-12], [0.0, 0.0, 0.0, 0.1],
                        [0.0, 0.0, 0.0, 0.0],
                        [1.0, 1.0, 1.0, np.sqrt(0.99)], np.ones(4),
                        np.full(4, wl))
    if kind == 'miss':
        return RealRays([0.0, 50.0, 500.0], [0.0, 50.0, 0.0],
                        [-5.0, -5.0, -5.0], [0.0, 0.0, 0.0],
                        [0.0, 0.0, 0.0], [1.0, 1.0, 1.0], np.ones(3),
                        np.full(3, wl))
    if kind == 'zero direction':
        return RealRays([0.0, 1.0], [0.0, 1.0], [-1.0, -2.0], [0.0, 0.0],
                        [0.0, 0.0], [1.0, 0.0], np.ones(2), np.full(2, wl))
    if kind == 'single':
        return RealRays(0.5, -0.25, -2.0, 0.0, 0.1, np.sqrt(0.99), 1.0, wl)
    if kind == 'N zero':
        return RealRays([0.0, 1.0], [1.0, 1.0], [-1.0, 0.5], [1.0, 0.0],
                        [0.0, 1.0], [0.0, 0.0], np.ones(2), np.full(2, wl))
    if kind == 'backwards':
        return RealRays([0.0, 1.0], [1.0, 1.0], [4.0, 6.0], [0.0, 0.05],
                        [0.0, 0.0], [-1.0, -np.sqrt(1 - 0.05**2)],
                        np.ones(2), np.full(2, wl))


KINDS = ['normal', 'oblique', 'behind/on/far', 'miss', 'zero direction',
         'single', 'N zero', 'backwards']

GEOMS = {
    'EvenAsphere R=20': lambda: EvenAsphere(CoordinateSystem(), 20.0, 0.0,
                                            1e-10, 100, [1e-4, -2e-6]),
    'EvenAsphere R=-15 k=-1.2': lambda: EvenAsphere(
        CoordinateSystem(), -15.0, -1.2, 1e-8, 30, [0.0, 1e-5, 1e-8]),
    'EvenAsphere R=inf': lambda: EvenAsphere(CoordinateSystem(), np.inf, 0.0,
                                             1e-10, 100, [5e-3]),
    'EvenAsphere no coefficients': lambda: EvenAsphere(
        CoordinateSystem(), 12.0, 0.5, 1e-10, 100, []),
    'EvenAsphere max_iter 3': lambda: EvenAsphere(
        CoordinateSystem(), 20.0, 0.0, 1e-12, 3, [1e-3, 1e-5]),
    'Polynomial': lambda: PolynomialGeometry(CoordinateSystem(), 25.0, -0.3,
                                             1e-10, 100, poly_c),
    'Polynomial R=inf': lambda: PolynomialGeometry(
        CoordinateSystem(), np.inf, 0.0, 1e-10, 100, poly_c),
    'Chebyshev': lambda: ChebyshevPolynomialGeometry(
        CoordinateSystem(), 30.0, 0.2, 1e-10, 100, cheb_c, 60.0, 60.0),
}

for gname, make in GEOMS.items():
    geo = make()
    for kind in KINDS:
        rays = bundle(kind)
        before = rays_dig(rays)

        def call():
            t = geo.distance(rays)
            x, y, z = geo._intersection_sphere(rays)
            n = geo.surface_normal(rays)
            return dig(t), repr(t.tolist()), dig(x, y, z), dig(*n)
        run('%s | %s' % (gname, kind), call)
        print(gname, '|', kind, 'rays untouched', before == rays_dig(rays),
              repr(geo.to_dict()))

"""Equivalence digest for change 4 (pupil_aberration.py loop over the axes).

Exercises PupilAberration for several lenses, explicit field / wavelength
lists (also ones that differ from the lens's own, duplicates, empty lists),
several sample counts, lenses with vignetting factors and with clipped rays.
"""
import hashlib
import warnings

import numpy as np

from optiland import analysis
from optiland.physical_apertures import RadialAperture
from optiland.samples.objectives import (CookeTriplet, DoubleGauss,
                                         ReverseTelephoto, TessarLens,
                                         Telephoto, PetzvalLens)
from optiland.samples.simple import (Edmund_49_847, AsphericSinglet,
                                     SingletStopSurf2)
from optiland.samples.lithography import UVProjectionLens
from optiland.samples.eyepieces import EyepieceErfle
from optiland.samples.telescopes import HubbleTelescope

warnings.simplefilter('ignore')


def digest(*arrays):
    h = hashlib.sha1()
    for a in arrays:
        a = np.ascontiguousarray(np.asarray(a, dtype=np.float64))
        h.update(repr(a.shape).encode())
        h.update(a.tobytes())
    return h.hexdigest()


def lens_state(lens):
    sg = lens.surface_group
    return digest(sg.x, sg.y, sg.z, sg.L, sg.M, sg.N, sg.intensity)


def walk(data):
    """flatten the nested result dict into (key path, type, digest) rows,
    keeping the insertion order of the keys"""
    rows = []
    for key, value in data.items():
        if isinstance(value, dict):
            for wkey, wvalue in value.items():
                rows.append((key, wkey, list(wvalue.keys()),
                             [(type(v).__name__, v.dtype.str, v.shape)
                              for v in wvalue.values()],
                             [int(np.isnan(v).sum()) for v in wvalue.values()],
                             digest(*wvalue.values())))
        else:
            rows.append((key, type(value).__name__, value.shape,
                         digest(value)))
    return rows


def vignetted_triplet():
    lens = CookeTriplet()
    lens.fields.fields[1].vx = 0.1
    lens.fields.fields[1].vy = 0.25
    lens.fields.fields[2].vx = 0.2
    lens.fields.fields[2].vy = 0.45
    return lens


def clipped_triplet():
    lens = CookeTriplet()
    lens.surface_group.surfaces[1].aperture = RadialAperture(r_max=4.0)
    return lens


LENSES = [CookeTriplet, DoubleGauss, ReverseTelephoto, TessarLens, Telephoto,
          PetzvalLens, Edmund_49_847, AsphericSinglet, SingletStopSurf2,
          UVProjectionLens, EyepieceErfle, HubbleTelescope,
          vignetted_triplet, clipped_triplet]

for make_lens in LENSES:
    lens = make_lens()
    name = make_lens.__name__
    own = lens.wavelengths.get_wavelengths()
    cases = [
        dict(),
        dict(num_points=1),
        dict(num_points=2),
        dict(num_points=7),
        dict(fields=[(0, 0), (0, 0.6), (0.3, -0.4), (0, 0.6)],
             wavelengths=[own[0] * 1.03, own[-1] * 0.98, own[0] * 1.03],
             num_points=16),
        dict(fields=[(0, 1.0)], wavelengths=[own[0]], num_points=33),
        dict(fields=[], num_points=5),
        dict(wavelengths=[], num_points=5),
    ]
    for kwargs in cases:
        label = f'{name} {kwargs}'
        try:
            pa = analysis.PupilAberration(lens, **kwargs)
        except Exception as exc:
            print(label, 'EXC', type(exc).__name__, exc, lens_state(lens))
            continue
        print(label, list(pa.data.keys()), lens_state(lens))
        for row in walk(pa.data):
            print('   ', row)
    print(name, sorted(vars(pa)))

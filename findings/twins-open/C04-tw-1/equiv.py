"""Equivalence digest for the paraxial machinery.

Prints, for many lenses, the exact float64 bytes (hex) of every paraxial
quantity plus a sha1 over the recorded per-surface ray data.  The output
must be identical before and after a behaviour-preserving change.
"""
import hashlib
import importlib
import inspect
import warnings

import numpy as np

from optiland import optic
from optiland.rays import ParaxialRays

warnings.filterwarnings('ignore')
np.seterr(all='ignore')


def digest(value):
    """Exact, type-aware digest of a return value."""
    if value is None:
        return 'None'
    if isinstance(value, tuple):
        return '(' + ', '.join(digest(v) for v in value) + ')'
    arr = np.asarray(value)
    head = f'{type(value).__name__}:{arr.dtype}:{arr.shape}'
    if arr.dtype == object:
        return head + ':' + repr(value)
    body = hashlib.sha1(np.ascontiguousarray(arr).tobytes()).hexdigest()[:16]
    if arr.size == 1:
        body += ':' + repr(float(arr.ravel()[0]))
    return head + ':' + body


def call(label, func, *args, **kwargs):
    try:
        out = digest(func(*args, **kwargs))
    except Exception as exc:  # exceptions are part of the behaviour
        out = f'EXC {type(exc).__name__}: {exc}'
    print(f'  {label}: {out}')


def surface_state(group):
    """Digest of what every surface recorded and of the prescription."""
    h = hashlib.sha1()
    for surf in group.surfaces:
        for name in ('y', 'u', 'x', 'z', 'L', 'M', 'N', 'intensity', 'opd'):
            arr = np.asarray(getattr(surf, name), dtype=float)
            h.update(name.encode() + str(arr.shape).encode() + arr.tobytes())
        h.update(repr((type(surf).__name__, surf.is_stop, surf.is_reflective,
                       float(surf.geometry.radius),
                       float(surf.geometry.cs.z),
                       id(surf.material_pre) == id(surf.material_post),
                       surf.semi_aperture)).encode())
        h.update(repr(getattr(surf.geometry, 'c', None)).encode())
    return h.hexdigest()[:16]


def report(name, lens):
    print(name)
    p = lens.paraxial
    for attr in ('f1', 'f2', 'F1', 'F2', 'P1', 'P2', 'N1', 'N2', 'EPL', 'EPD',
                 'XPL', 'XPD', 'FNO', 'magnification', 'invariant',
                 'marginal_ray', 'chief_ray'):
        call(attr, getattr(p, attr))
        print(f'    state after {attr}: {surface_state(lens.surface_group)}')
    wl = lens.primary_wavelength
    for Hy, Py in ((0.0, 1.0), (1.0, 0.0), (-0.7, 0.3),
                   (np.array([0.0, 0.5, 1.0]), np.array([1.0, -1.0, 0.25]))):
        call(f'trace({Hy!r},{Py!r})', p.trace, Hy, Py, wl)
        g = lens.surface_group
        print(f'    y,u: {digest(g.y)} {digest(g.u)} '
              f'state {surface_state(g)}')
    # generic traces: scalars, lists, arrays, reverse, skip
    for args, kw in (((1.0, 0.0, -3.0, wl), {}),
                     (([1.0, 2.0, -0.5], [0.0, 0.01, -0.02], [-1, -1, -1], wl),
                      {}),
                     ((np.array([0.3]), np.array([0.1]), np.array([0.0]), wl),
                      {'reverse': True}),
                     ((0, 0.1, 0.0, wl), {'skip': 2}),
                     ((0.5, -0.1, 1.0, wl), {'reverse': True, 'skip': 1}),
                     ((np.float64(2.0), 1, np.float32(0.5), wl), {})):
        call(f'_trace_generic{kw}', p._trace_generic, *args, **kw)
    # linearity inputs: direct surface-group trace with a ray bundle
    rays = ParaxialRays([0.0, 1.0, 2.0, -3.5], [0.1, 0.0, -0.05, 0.02],
                        [-5.0, -5.0, -5.0, -5.0], wl)
    out = lens.surface_group.trace(rays)
    print(f'  group.trace: same={out is rays} {digest(out.y)} {digest(out.u)} '
          f'{digest(out.z)} state {surface_state(lens.surface_group)}')
    inv = lens.surface_group.inverted()
    print(f'  inverted: stop={inv.stop_index} {digest(inv.positions)} '
          f'{digest(inv.radii)} {digest(inv.conic)} '
          f'state {surface_state(inv)} orig {surface_state(lens.surface_group)}')
    print(f'  group: stop={lens.surface_group.stop_index} '
          f'n={lens.surface_group.num_surfaces} '
          f'{digest(lens.surface_group.positions)} {digest(lens.n())}')


def singlet(stop, obj_t=np.inf, ap=('EPD', 10.0), field_type='angle',
            fields=(0.0, 7.0), mirror=False, asphere=None, img_mat=None):
    lens = optic.Optic()
    lens.add_surface(index=0, thickness=obj_t)
    if asphere is not None:
        lens.add_surface(index=1, thickness=7, radius=40.0, material='N-SF11',
                         is_stop=(stop == 1), surface_type='even_asphere',
                         conic=-0.5, coefficients=asphere)
    else:
        lens.add_surface(index=1, thickness=7, radius=40.0, material='N-SF11',
                         is_stop=(stop == 1))
    lens.add_surface(index=2, thickness=5, radius=-60.0, is_stop=(stop == 2),
                     conic=0.3)
    if mirror:
        lens.add_surface(index=3, thickness=-20, radius=-150.0,
                         material='mirror', is_stop=(stop == 3))
        lens.add_surface(index=4, thickness=-4, radius=np.inf,
                         material='N-BK7')
        lens.add_surface(index=5, thickness=-15, radius=35.0)
        lens.add_surface(index=6)
    else:
        kw = {} if img_mat is None else {'material': img_mat}
        lens.add_surface(index=3, thickness=30, radius=np.inf,
                         is_stop=(stop == 3), **kw)
        lens.add_surface(index=4)
    lens.set_aperture(aperture_type=ap[0], value=ap[1])
    lens.set_field_type(field_type=field_type)
    for f in fields:
        lens.add_field(y=f)
    lens.add_wavelength(value=0.48)
    lens.add_wavelength(value=0.55, is_primary=True)
    lens.add_wavelength(value=0.65)
    return lens


def main():
    for mod in ('simple', 'objectives', 'eyepieces', 'infrared',
                'lithography', 'microscopes', 'telescopes'):
        module = importlib.import_module('optiland.samples.' + mod)
        for name, cls in sorted(inspect.getmembers(module, inspect.isclass)):
            if issubclass(cls, optic.Optic) and cls.__module__ == \
                    module.__name__:
                report(f'sample {mod}.{name}', cls())

    custom = {
        'stop-first': singlet(1),
        'stop-interior': singlet(2),
        'stop-last': singlet(3),
        'finite-EPD-objheight': singlet(2, obj_t=80.0,
                                        field_type='object_height',
                                        fields=(0.0, 5.0)),
        'finite-NA-angle': singlet(2, obj_t=50.0, ap=('objectNA', 0.1)),
        'finite-NA-stop-first': singlet(1, obj_t=50.0, ap=('objectNA', 0.05),
                                        field_type='object_height',
                                        fields=(0.0, 3.0)),
        'imageFNO': singlet(3, ap=('imageFNO', 4.0)),
        'inf-objheight': singlet(2, field_type='object_height',
                                 fields=(0.0, 5.0)),
        'mirror-stop1': singlet(1, mirror=True),
        'mirror-stop3': singlet(3, mirror=True, obj_t=200.0),
        'asphere-c0': singlet(2, asphere=[1e-3, -2e-6, 1e-9]),
        'asphere-c0-zero': singlet(2, asphere=[0.0, -2e-6]),
        'asphere-empty': singlet(1, asphere=[]),
        'asphere-cancel': singlet(2, asphere=[-1 / 80.0, 1e-7]),
        'image-in-glass': singlet(2, img_mat='N-BK7'),
    }
    for name, lens in custom.items():
        report('custom ' + name, lens)

    # unknown aperture type (bypassing validation) and missing stop
    lens = singlet(2)
    lens.aperture.ap_type = 'floatNA'
    report('custom unknown-aperture', lens)
    lens = singlet(2)
    for surf in lens.surface_group.surfaces:
        surf.is_stop = False
    report('custom no-stop', lens)
    lens = singlet(2)
    lens.field_type = 'paraxial_image_height'
    report('custom unknown-field-type', lens)


if __name__ == '__main__':
    main()

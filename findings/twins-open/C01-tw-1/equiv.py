"""Equivalence digest for C01-tw-1 (Optic.set_thickness restructuring).

Exercises set_thickness directly, through thickness pickups, through
thickness variables and through scale_system on several sample lenses and on
hand-built lenses (finite / infinite object, tilts and decentres, mirrors),
including the edge cases of the touched branches: surface 0, the last gap,
negative indices, out-of-range indices, inf / nan / numpy-scalar / array
values.  Prints exact (hex) values and a sha1 of the float64 bytes.
"""
import hashlib
import warnings

import numpy as np

from optiland.optic import Optic
from optiland.optimization.variable.variable import Variable
from optiland.samples.objectives import (CookeTriplet, DoubleGauss,
                                         ReverseTelephoto, TessarLens)
from optiland.samples.simple import AsphericSinglet, CementedAchromat
from optiland.samples.telescopes import HubbleTelescope
from optiland.samples.microscopes import UVReflectingMicroscope

warnings.filterwarnings('ignore')
np.seterr(all='ignore')

SHA = hashlib.sha1()


def fhex(v):
    v = float(v)
    return v.hex()


def state(lens):
    """exact z / x / y / tilts and types of every coordinate system"""
    out = []
    for s in lens.surface_group.surfaces:
        cs = s.geometry.cs
        out.append((type(cs.z).__name__, fhex(cs.z), fhex(cs.x), fhex(cs.y),
                    fhex(cs.rx), fhex(cs.ry)))
        SHA.update(np.float64(cs.z).tobytes())
    pos = lens.surface_group.positions
    SHA.update(np.ascontiguousarray(pos, dtype=np.float64).tobytes())
    out.append(('positions', pos.shape, str(pos.dtype)))
    return out


def show(tag, lens):
    print(tag)
    for row in state(lens):
        print('   ', row)


def attempt(tag, fn):
    try:
        r = fn()
        print(tag, 'ok', r)
    except Exception as e:  # noqa
        print(tag, 'EXC', type(e).__name__, str(e))


def tilted_finite():
    lens = Optic()
    lens.add_surface(index=0, thickness=37.5)
    lens.add_surface(index=1, radius=31.0, thickness=4.0, material='N-BK7',
                     dx=0.3, ry=0.02)
    lens.add_surface(index=2, radius=-45.0, thickness=2.5, is_stop=True,
                     dy=-0.2, rx=-0.015)
    lens.add_surface(index=3, thickness=6.25, material='mirror', rx=0.1)
    lens.add_surface(index=4, surface_type='even_asphere', radius=80.0,
                     conic=-0.5, coefficients=[1e-5, -2e-8], thickness=-3.0,
                     material='SF6')
    lens.add_surface(index=5, thickness=-12.0)
    lens.add_surface(index=6)
    lens.set_aperture('EPD', 6.0)
    lens.set_field_type('angle')
    lens.add_field(y=0.0)
    lens.add_field(y=2.0)
    lens.add_wavelength(0.55, is_primary=True)
    return lens


FACTORIES = [CookeTriplet, DoubleGauss, ReverseTelephoto, TessarLens,
             AsphericSinglet, CementedAchromat, HubbleTelescope,
             UVReflectingMicroscope, tilted_finite]

VALUES = [0.0, 1.0, -2.5, 3.14159, 1e-12, 1e12, 7, np.float64(0.1) * 3,
          np.float32(2.2), np.array([4.75])]

rng = np.random.default_rng(20240607)

for factory in FACTORIES:
    lens = factory()
    n = lens.surface_group.num_surfaces
    name = factory.__name__
    show(f'{name} initial', lens)

    # every gap, several values, in a scrambled order, repeated
    order = list(range(n - 1)) * 2
    rng.shuffle(order)
    for j, k in enumerate(order):
        v = VALUES[(j + k) % len(VALUES)]
        lens.set_thickness(v, k)
        t = lens.surface_group.get_thickness(k)
        print(f'{name} set_thickness({v!r}, {k}) ->',
              fhex(t[0]), t.shape)
    show(f'{name} after edits', lens)

    # random values
    for _ in range(12):
        k = int(rng.integers(0, n - 1))
        v = float(rng.normal(0, 50))
        lens.set_thickness(v, k)
    show(f'{name} after random edits', lens)

    # object surface: finite -> infinite -> finite
    lens.set_thickness(np.inf, 0)
    show(f'{name} object at infinity', lens)
    lens.set_thickness(123.456, 0)
    show(f'{name} object finite', lens)
    lens.set_thickness(1e-3, 0)
    lens.set_thickness(5.0, 1)
    show(f'{name} object finite then gap 1', lens)

    # index edge cases: negative, last surface, out of range
    for k in (-1, -2, -n, n - 1, n, n + 3):
        attempt(f'{name} set_thickness(2.0, {k})',
                lambda k=k: lens.set_thickness(2.0, k))
        show(f'{name} after index {k}', lens)
    attempt(f'{name} bad value str',
            lambda: lens.set_thickness('a', 1))
    attempt(f'{name} bad value shape',
            lambda: lens.set_thickness(np.array([1.0, 2.0]), 1))
    attempt(f'{name} float index',
            lambda: lens.set_thickness(1.0, 1.0))
    show(f'{name} after bad calls', lens)

    # pickups, variables, scaling
    lens2 = factory()
    n2 = lens2.surface_group.num_surfaces
    lens2.pickups.add(1, 'thickness', 2, scale=-1.5, offset=0.25)
    lens2.pickups.add(2, 'thickness', n2 - 2, scale=2, offset=-1)
    lens2.set_thickness(3.3, 1)
    lens2.update()
    lens2.update()
    show(f'{name} pickups', lens2)
    var = Variable(lens2, 'thickness', surface_number=1)
    var_raw = Variable(lens2, 'thickness', surface_number=n2 - 2,
                       apply_scaling=False)
    for x in (-0.5, 0.0, 0.37):
        var.update(x)
        var_raw.update(10 * x + 1)
        print(f'{name} var', fhex(var.value), fhex(var_raw.value))
    var.reset()
    show(f'{name} variables', lens2)
    lens2.scale_system(0.3)
    show(f'{name} scaled', lens2)

    # non-finite values last (they poison the lens)
    lens3 = factory()
    lens3.set_thickness(np.nan, 2)
    show(f'{name} nan', lens3)
    lens4 = factory()
    lens4.set_thickness(np.inf, 2)
    show(f'{name} inf gap', lens4)
    lens4.set_thickness(1.0, 2)
    show(f'{name} inf gap then finite', lens4)

# degenerate lenses
for count in (0, 1, 2):
    lens = Optic()
    for k in range(count):
        lens.add_surface(index=k, thickness=1.5)
    for k in (0, 1):
        attempt(f'degenerate {count} surfaces, k={k}',
                lambda k=k: lens.set_thickness(2.0, k))
    show(f'degenerate {count}', lens)

print('sha1', SHA.hexdigest())

"""Equivalence digest for change C09-tw-4 (RayOperand.OPD_difference: duplicated Gaussian-quadrature
branches collapsed, OPD array named).

Prints, for a varied set of lenses, the sha1 of the float64 bytes of every
OPD / intensity array produced through the public API, plus a few exact
reprs.  The output must be byte-identical before and after the change.
"""
import hashlib
import warnings

import numpy as np

import matplotlib
matplotlib.use('Agg')

from optiland import optic, wavefront, distribution  # noqa: E402
from optiland.analysis.rms_vs_field import RmsWavefrontErrorVsField  # noqa
from optiland.optimization.operand.ray import RayOperand  # noqa: E402
from optiland.samples.objectives import (  # noqa: E402
    CookeTriplet, DoubleGauss, ReverseTelephoto, Telephoto, PetzvalLens,
    LensWithFieldCorrector, TessarLens)
from optiland.samples.simple import (  # noqa: E402
    SingletStopSurf2, CementedAchromat, AsphericSinglet, Edmund_49_847)
from optiland.samples.telescopes import HubbleTelescope  # noqa: E402
from optiland.samples.eyepieces import EyepieceErfle  # noqa: E402
from optiland.samples.microscopes import (  # noqa: E402
    Objective60x, UVReflectingMicroscope)
from optiland.samples.lithography import UVProjectionLens  # noqa: E402
from optiland.samples.infrared import InfraredTriplet  # noqa: E402

warnings.simplefilter('ignore')


def digest(*arrays):
    h = hashlib.sha1()
    for a in arrays:
        a = np.ascontiguousarray(np.asarray(a, dtype=np.float64))
        h.update(repr(a.shape).encode())
        h.update(a.tobytes())
    return h.hexdigest()


def finite_singlet(field_type, ap_type='objectNA', ap_value=0.08,
                   image_shift=0.0, vig=False, xfield=0.0):
    """Biconvex singlet imaging a finite object."""
    lens = optic.Optic()
    lens.add_surface(index=0, radius=np.inf, thickness=60.0)
    lens.add_surface(index=1, radius=40.0, thickness=6.0, material='N-BK7',
                     is_stop=True)
    lens.add_surface(index=2, radius=-40.0, thickness=95.0 + image_shift)
    lens.add_surface(index=3)
    lens.set_aperture(aperture_type=ap_type, value=ap_value)
    lens.set_field_type(field_type=field_type)
    lens.add_field(y=0.0)
    if vig:
        lens.add_field(y=3.0, vx=0.1, vy=0.25)
    else:
        lens.add_field(y=3.0)
    lens.add_field(y=5.0, x=xfield)
    lens.add_wavelength(value=0.4861)
    lens.add_wavelength(value=0.5876, is_primary=True)
    lens.add_wavelength(value=0.6563)
    return lens


def infinite_singlet(stop_index=1, vig=False, immersed=False):
    """Plano-convex singlet, infinite object; stop on the first or on the
    last refracting surface (the latter gives the XPL() special case)."""
    lens = optic.Optic()
    lens.add_surface(index=0, radius=np.inf, thickness=np.inf)
    lens.add_surface(index=1, radius=50.0, thickness=5.0, material='N-SF11',
                     is_stop=(stop_index == 1))
    if immersed:
        lens.add_surface(index=2, radius=-300.0, thickness=60.0,
                         is_stop=(stop_index == 2), material='N-BK7')
    else:
        lens.add_surface(index=2, radius=-300.0, thickness=60.0,
                         is_stop=(stop_index == 2))
    lens.add_surface(index=3)
    lens.set_aperture(aperture_type='EPD', value=12.0)
    lens.set_field_type(field_type='angle')
    lens.add_field(y=0.0)
    if vig:
        lens.add_field(y=4.0, vx=0.2, vy=0.1)
    else:
        lens.add_field(y=4.0)
    lens.add_field(y=-7.0)
    lens.add_wavelength(value=0.55, is_primary=True)
    lens.add_wavelength(value=0.65)
    return lens


def pupil_near_image(gap, t2=20.0, r1=50.0, r2=-300.0, epd=12.0):
    """Stop is the last surface, only `gap` in front of a strongly defocused
    image surface: the reference sphere is much smaller than the blur, so
    that rays start outside it (both roots of the same sign) or miss it
    altogether (negative discriminant, NaN)."""
    lens = optic.Optic()
    lens.add_surface(index=0, radius=np.inf, thickness=np.inf)
    lens.add_surface(index=1, radius=r1, thickness=10.0, material='N-SF11')
    lens.add_surface(index=2, radius=r2, thickness=t2)
    lens.add_surface(index=3, radius=np.inf, thickness=gap, is_stop=True)
    lens.add_surface(index=4)
    lens.set_aperture(aperture_type='EPD', value=epd)
    lens.set_field_type(field_type='angle')
    lens.add_field(y=0.0)
    lens.add_field(y=5.0)
    lens.add_wavelength(value=0.55, is_primary=True)
    return lens


LENSES = [
    ('CookeTriplet', CookeTriplet),
    ('DoubleGauss', DoubleGauss),
    ('ReverseTelephoto', ReverseTelephoto),
    ('Telephoto', Telephoto),
    ('PetzvalLens', PetzvalLens),
    ('TessarLens', TessarLens),
    ('LensWithFieldCorrector', LensWithFieldCorrector),
    ('SingletStopSurf2', SingletStopSurf2),
    ('CementedAchromat', CementedAchromat),
    ('AsphericSinglet', AsphericSinglet),
    ('Edmund_49_847', Edmund_49_847),
    ('HubbleTelescope', HubbleTelescope),
    ('EyepieceErfle', EyepieceErfle),
    ('Objective60x', Objective60x),
    ('UVReflectingMicroscope', UVReflectingMicroscope),
    ('UVProjectionLens', UVProjectionLens),
    ('InfraredTriplet', InfraredTriplet),
    ('finite_height_NA', lambda: finite_singlet('object_height')),
    ('finite_height_NA_vig', lambda: finite_singlet('object_height',
                                                    vig=True)),
    ('finite_height_EPD', lambda: finite_singlet('object_height', 'EPD',
                                                 8.0)),
    ('finite_height_defocus', lambda: finite_singlet('object_height',
                                                     image_shift=-70.0)),
    ('finite_angle_EPD', lambda: finite_singlet('angle', 'EPD', 8.0)),
    ('finite_xfield', lambda: finite_singlet('object_height', xfield=2.0)),
    ('inf_stop1', lambda: infinite_singlet(1)),
    ('inf_stop1_vig', lambda: infinite_singlet(1, vig=True)),
    ('inf_stop_last', lambda: infinite_singlet(2)),
    ('inf_immersed', lambda: infinite_singlet(1, immersed=True)),
    ('pupil_near_image_0.3', lambda: pupil_near_image(0.3)),
    ('pupil_near_image_3', lambda: pupil_near_image(3.0)),
    ('start_outside_sphere', lambda: pupil_near_image(1.0, 14.0, 30.0,
                                                      -30.0, 10.0)),
]

DISTRIBUTIONS = [('hexapolar', 4), ('uniform', 7), ('random', 25),
                 ('cross', 9), ('line_x', 6), ('line_y', 6)]


def state(lens):
    """What the analysis leaves behind on the lens."""
    sg = lens.surface_group
    return digest(sg.x, sg.y, sg.z, sg.L, sg.M, sg.N, sg.opd, sg.intensity)


def run(name, make):
    lens = make()
    out = []
    # full Wavefront, every distribution
    for dist, n in DISTRIBUTIONS:
        dist_arg = dist
        if dist == 'random':
            # the string would create an unseeded generator
            dist_arg = distribution.RandomDistribution(seed=1234)
            dist_arg.generate_points(n)
        wf = wavefront.Wavefront(lens, num_rays=n, distribution=dist_arg)
        arrays = []
        for fd in wf.data:
            for opd, inten in fd:
                arrays += [opd, inten]
        out.append(f'{dist}:{digest(*arrays)}:{wf._wavelength!r}')
    out.append('state:' + state(lens))

    # user-supplied distribution object
    d = distribution.create_distribution('hexapolar')
    d.generate_points(3)
    wf = wavefront.Wavefront(lens, fields=[(0, 1), (0.5, -0.5)],
                             wavelengths='primary', num_rays=3,
                             distribution=d)
    out.append('obj:' + digest(*[a for fd in wf.data for pair in fd
                                 for a in pair]))

    # chief ray: a single pupil sample at the pupil centre gives exactly 0
    d0 = distribution.create_distribution('line_y')
    d0.x = np.array([0.0])
    d0.y = np.array([0.0])
    wf = wavefront.Wavefront(lens, wavelengths='primary', num_rays=1,
                             distribution=d0)
    out.append('chief:' + repr([fd[0][0].tolist() for fd in wf.data]))

    # fans, maps, rms, rms vs field, operand
    fan = wavefront.OPDFan(lens, num_rays=11)
    out.append('fan:' + digest(*[a for fd in fan.data for pair in fd
                                 for a in pair], fan.pupil_coord))
    wl = lens.primary_wavelength
    for field in [(0, 0), (0, 0.7), (0, 1), (0.3, -0.6)]:
        opd = wavefront.OPD(lens, field, wl, num_rings=5)
        m = opd._generate_opd_map(16)
        out.append(f'opd{field}:{opd.rms()!r}:'
                   + digest(opd.data[0][0][0], opd.data[0][0][1],
                            np.nan_to_num(m['z'], nan=-7.0)))
    try:
        z = wavefront.ZernikeOPD(lens, (0, 1), wl, num_rings=6, num_terms=15)
        out.append('zern:' + digest(z.coeffs))
    except Exception as exc:  # noqa: BLE001
        out.append('zern:EXC ' + type(exc).__name__ + ' ' + str(exc))
    rvf = RmsWavefrontErrorVsField(lens, num_fields=5, num_rays=4)
    out.append('rvf:' + digest(rvf._wavefront_error, rvf._field)
               + ':' + repr(rvf._wavefront_error.shape))
    for Hx, Hy, n in [(0, 0, 3), (0, 1, 4), (0.5, 0.5, 6), (0, 0.0, 1)]:
        v = RayOperand.OPD_difference(lens, Hx, Hy, n, wl)
        out.append(f'opdiff({Hx},{Hy},{n}):{float(v)!r}')
    v = RayOperand.OPD_difference(lens, 0, 1, 5, wl, distribution='uniform')
    out.append(f'opdiff-uniform:{float(v)!r}')
    # change-specific: the operand for every ring count, odd spellings of the
    # field coordinates (which decide on- vs. off-axis quadrature), every
    # kind of distribution argument, through the operand registry, and the
    # arguments with which the quadrature is built
    import optiland.optimization.operand.ray as ray_module
    from optiland.optimization.operand.operand import Operand
    built = []
    real_gq = ray_module.GaussianQuadrature

    class SpyGQ(real_gq):
        def __init__(self, *args, **kwargs):
            built.append(('init', repr(args), repr(sorted(kwargs.items()))))
            super().__init__(*args, **kwargs)

        def get_weights(self, num_rings):
            built.append(('weights', num_rings, hasattr(self, 'x')))
            return super().get_weights(num_rings)

        def generate_points(self, *args, **kwargs):
            built.append(('points', repr(args), repr(sorted(kwargs.items()))))
            return super().generate_points(*args, **kwargs)

    ray_module.GaussianQuadrature = SpyGQ
    try:
        fields = [(0, 0), (0.0, 0.0), (-0.0, 0), (0, -0.0), (False, 0),
                  (np.float64(0), np.int64(0)), (np.array([0.0]), 0),
                  (np.array([0.0]), np.array([0.0])), (0, 1e-300),
                  (1e-300, 0), (0, 1), (0, -1), (0.3, 0.3), (0.3, -0.3),
                  (np.float64(0.5), 0.0), (0, np.array([0.7])),
                  (np.array([0.0, 0.0]), 0), (float('nan'), 0)]
        for Hx, Hy in fields:
            items = []
            for n in [0, 1, 2, 3, 4, 5, 6, 7]:
                try:
                    v = RayOperand.OPD_difference(lens, Hx, Hy, n, wl)
                    items.append('%d:%s:%s:%r' % (n, type(v).__name__,
                                                  digest(v), np.shape(v)))
                except Exception as exc:  # noqa: BLE001
                    items.append('%d:%s %s' % (n, type(exc).__name__, exc))
            out.append('opdiff-gq(%r,%r):%s | %s | %s' % (
                Hx, Hy, hashlib.sha1(repr(items).encode()).hexdigest(),
                items[0][:60], items[3][:70]))
        out.append('gq-calls:%d:' % len(built)
                   + hashlib.sha1(repr(built).encode()).hexdigest())
        del built[:]
        hexa = distribution.create_distribution('hexapolar')
        hexa.generate_points(3)
        for dist, n in [('hexapolar', 3), ('uniform', 6), ('cross', 5),
                        ('line_y', 4), (hexa, 99), ('nope', 3)]:
            for Hx, Hy in [(0, 0), (0, 0.8)]:
                for w in lens.wavelengths.get_wavelengths():
                    key = 'opdiff(%s,%r,%r,%r):' % (
                        dist if isinstance(dist, str) else 'object',
                        Hx, Hy, w)
                    try:
                        v = RayOperand.OPD_difference(lens, Hx, Hy, n, w,
                                                      distribution=dist)
                        out.append(key + repr(float(v)))
                    except Exception as exc:  # noqa: BLE001
                        out.append(key + type(exc).__name__ + ' ' + str(exc))
        out.append('gq-calls-other:%d' % len(built))
        op = Operand('OPD_difference', 0.05, 2.0,
                     dict(optic=lens, Hx=0, Hy=0.6, num_rays=3,
                          wavelength=wl))
        out.append('operand:%r:%r:%r' % (float(op.value),
                                         float(op.delta()), float(op.fun())))
        op = Operand('OPD_difference', 0.0, 1.0,
                     dict(optic=lens, Hx=0, Hy=0, num_rays=6, wavelength=wl,
                          distribution='gaussian_quad'))
        out.append('operand-axis:%r' % float(op.fun()))
    finally:
        ray_module.GaussianQuadrature = real_gq
    out.append('state:' + state(lens))
    out.append('xpl:%r epd:%r' % (float(lens.paraxial.XPL()),
                                  float(lens.paraxial.EPD())))
    print(name)
    for line in out:
        print('   ', line)


def errors():
    """Exceptions raised by the touched code paths."""
    lens = CookeTriplet()
    wf = wavefront.Wavefront(lens, num_rays=3)
    for label, call in [
        ('refsphere-not-alone', lambda: wf._get_reference_sphere(10.0)),
        ('bad-projection', lambda: wavefront.OPD(
            lens, (0, 1), 0.55, 3).view(projection='4d')),
        ('gq-rings', lambda: RayOperand.OPD_difference(
            lens, 0, 1, 9, 0.55)),
        ('bad-distribution', lambda: wavefront.Wavefront(
            lens, distribution='nope')),
        ('empty-fields', lambda: wavefront.Wavefront(
            lens, fields=[], num_rays=3).data),
        ('empty-wavelengths', lambda: wavefront.Wavefront(
            lens, wavelengths=[], num_rays=3).data),
        ('rvf-zero-fields', lambda: RmsWavefrontErrorVsField(
            lens, num_fields=0, num_rays=3)._wavefront_error.shape),
    ]:
        try:
            print('   ', label, 'ok', repr(call()))
        except Exception as exc:  # noqa: BLE001
            print('   ', label, type(exc).__name__, str(exc))


if __name__ == '__main__':
    for name, make in LENSES:
        try:
            run(name, make)
        except Exception as exc:  # noqa: BLE001
            print(name, 'EXC', type(exc).__name__, str(exc))
    print('errors')
    errors()

"""Equivalence digest for C13-tw-2 (shared tail of Optic.trace /
Optic.trace_generic extracted, argument normaliser moved to module level)."""
import hashlib
import warnings
import numpy as np

warnings.simplefilter('ignore')

from optiland.samples.objectives import (CookeTriplet, DoubleGauss,
                                         ReverseTelephoto, Telephoto)
from optiland.samples.simple import (Edmund_49_847, AsphericSinglet,
                                     SingletStopSurf2)
from optiland.samples.telescopes import HubbleTelescope
from optiland.samples.microscopes import Microscope20x
from optiland.distribution import create_distribution
from optiland.rays import PolarizationState
from optiland.coatings import SimpleCoating

REC = ('x', 'y', 'z', 'L', 'M', 'N', 'intensity', 'opd', 'u', 'aoi')


def dig(*arrays):
    h = hashlib.sha1()
    for a in arrays:
        a = np.ascontiguousarray(np.asarray(a, dtype=np.float64))
        h.update(repr(a.shape).encode())
        h.update(a.tobytes())
    return h.hexdigest()[:16]


def rays_dig(rays):
    return type(rays).__name__ + ':' + dig(rays.x, rays.y, rays.z, rays.L,
                                           rays.M, rays.N, rays.i, rays.opd,
                                           rays.w)


def lens_state(optic):
    """records on all surfaces + prescription, fields, wavelengths, aperture"""
    recs = [dig(*[getattr(s, n) for n in REC])
            for s in optic.surface_group.surfaces]
    pres = repr(optic.to_dict())
    return hashlib.sha1(('|'.join(recs) + pres).encode()).hexdigest()[:16]


def with_vignetting(cls):
    optic = cls()
    for k, f in enumerate(optic.fields.fields):
        f.vx = 0.05 * k
        f.vy = 0.1 * k
    return optic


def run(label, fn):
    try:
        out = fn()
    except Exception as e:  # noqa
        out = 'EXC %s: %s' % (type(e).__name__, e)
    print(label, out)


GENERIC_ARGS = [
    (0.0, 0.0, 0.0, 0.0),
    (0, 1, 0, 1),
    (np.float64(0.0), np.float32(0.5), np.int64(1), np.float64(-0.25)),
    (np.array(0.0), np.array(0.7), 0.1, np.array(0.2)),
    (0.0, 0.5, [0.1, -0.2, 0.0], [0.3, 0.9, 1]),
    ([0.0, 0.0], [0.2, 1.0], 0.0, 0.5),
    ([0, 0], [1, -1], [0, 1], [1, 0]),
    (np.array([0.0, 0.2, -0.3]), np.array([1.0, -0.4, 0.0]),
     np.array([0.5, 0.0, 0.1]), np.array([0.0, -0.5, 0.9])),
    (0.0, np.linspace(-1, 1, 5), 0.0, np.linspace(1, -1, 5)),
    (np.zeros((2, 2)), np.full((2, 2), 0.5), 0.0,
     np.array([[0.0, 0.5], [-0.5, 1.0]])),
    (np.array([0, 0]), np.array([1, 0]), np.array([0, 1]), np.array([1, 1])),
    (0.0, 0.0, [0.0, 0.1], [0.0, 0.1, 0.2]),     # inconsistent lengths
    ('a', 0.0, 0.0, 0.0),                        # not a number
    (None, 0.0, 0.0, 0.0),
    ((0.0, 0.1), (0.0, 0.2), (0.5, 0.5), (0.0, 1.0)),
]

LENSES = [('CookeTriplet', CookeTriplet), ('DoubleGauss', DoubleGauss),
          ('ReverseTelephoto', ReverseTelephoto), ('Telephoto', Telephoto),
          ('Edmund', Edmund_49_847), ('AsphericSinglet', AsphericSinglet),
          ('SingletStopSurf2', SingletStopSurf2),
          ('Hubble', HubbleTelescope), ('Microscope20x', Microscope20x),
          ('CookeTriplet+vig', lambda: with_vignetting(CookeTriplet)),
          ('DoubleGauss+vig', lambda: with_vignetting(DoubleGauss))]

for name, make in LENSES:
    optic = make()
    wl = optic.primary_wavelength
    print(name, 'initial', lens_state(optic))
    for k, args in enumerate(GENERIC_ARGS):
        copies = [np.copy(a) if isinstance(a, np.ndarray) else a
                  for a in args]

        def call():
            rays = optic.trace_generic(*args, wavelength=wl)
            img = optic.image_surface
            return (rays_dig(rays), dig(img.intensity),
                    bool(np.shares_memory(img.intensity, rays.i)),
                    img.intensity.flags.owndata)
        run('%s generic %d' % (name, k), call)
        same = all((np.array_equal(a, c) and a.dtype == c.dtype)
                   if isinstance(a, np.ndarray) else a is c or a == c
                   for a, c in zip(args, copies))
        print(name, 'generic', k, 'args untouched', same, lens_state(optic))
    for dist in ['hexapolar', 'uniform', 'line_x', 'line_y', 'cross', 'ring',
                 'nonsense']:
        for H in [(0, 0), (0.0, 1.0), (0.5, -0.5)]:
            def call():
                rays = optic.trace(*H, wl, 5, dist)
                img = optic.image_surface
                return (rays_dig(rays), dig(img.intensity),
                        bool(np.shares_memory(img.intensity, rays.i)))
            run('%s trace %s %s' % (name, dist, H), call)
    # a ready-made distribution object, num_rays ignored
    d = create_distribution('hexapolar')
    d.generate_points(3)
    dx, dy = np.copy(d.x), np.copy(d.y)
    run(name + ' trace dist-object',
        lambda: rays_dig(optic.trace(0, 0.7, wl, None, d)))
    print(name, 'distribution untouched', np.array_equal(dx, d.x),
          np.array_equal(dy, d.y), lens_state(optic))
    # array field arguments of trace
    run(name + ' trace array field',
        lambda: rays_dig(optic.trace(np.zeros(7), np.linspace(0, 1, 7), wl,
                                     7, 'line_y')))
    # other wavelengths
    for w in optic.wavelengths.get_wavelengths():
        run('%s wl %.4f' % (name, w),
            lambda: (rays_dig(optic.trace(0, 1, w, 4)),
                     rays_dig(optic.trace_generic(0., 1., 0., 1., w))))
    # interleaving with paraxial queries: same results afterwards
    a = rays_dig(optic.trace_generic(0.0, 0.3, 0.2, -0.4, wl))
    optic.paraxial.f2(), optic.paraxial.marginal_ray()
    optic.trace(0, 1, wl, 6)
    b = rays_dig(optic.trace_generic(0.0, 0.3, 0.2, -0.4, wl))
    print(name, 'repeatable', a == b, a, lens_state(optic))

# polarization: Fresnel coatings with a polarization state, and the error when
# a polarized coating is traced with polarization 'ignore'
for cls in (CookeTriplet, DoubleGauss, AsphericSinglet):
    optic = cls()
    wl = optic.primary_wavelength
    optic.surface_group.set_fresnel_coatings()
    run(cls.__name__ + ' fresnel ignore trace',
        lambda: rays_dig(optic.trace(0, 1, wl, 4)))
    run(cls.__name__ + ' fresnel ignore generic',
        lambda: rays_dig(optic.trace_generic(0., 1., 0., 1., wl)))
    for state in (PolarizationState(is_polarized=False),
                  PolarizationState(is_polarized=True, Ex=1, Ey=0,
                                    phase_x=0, phase_y=0),
                  PolarizationState(is_polarized=True, Ex=1, Ey=1,
                                    phase_x=0, phase_y=np.pi / 2)):
        optic.set_polarization(state)
        run(cls.__name__ + ' polarized trace',
            lambda: (rays_dig(optic.trace(0, 1, wl, 4)),
                     dig(optic.image_surface.intensity),
                     dig(optic.surface_group.intensity)))
        for args in GENERIC_ARGS[:8]:
            run(cls.__name__ + ' polarized generic',
                lambda: (rays_dig(optic.trace_generic(*args, wavelength=wl)),
                         dig(optic.image_surface.intensity)))
    print(cls.__name__, 'polarized state', lens_state(optic))

# unpolarized simple coating
optic = CookeTriplet()
optic.surface_group.surfaces[2].coating = SimpleCoating(0.9, 0.05)
wl = optic.primary_wavelength
run('simple coating', lambda: (rays_dig(optic.trace(0, 0.5, wl, 5)),
                               dig(optic.image_surface.intensity),
                               rays_dig(optic.trace_generic(0, 0.5, 0, 1, wl)),
                               dig(optic.image_surface.intensity)))

import hashlib
import inspect
import io
import os
import sys
import tempfile
import contextlib
import numpy as np

from optiland.fileio import load_zemax_file
from optiland.fileio.zemax_handler import ZemaxFileReader
from optiland.fileio.converters import ZemaxToOpticConverter
from optiland.materials import (BaseMaterial, Material, AbbeMaterial,
                                IdealMaterial)
from optiland import samples as _samples_pkg
from optiland.samples import (simple, objectives, eyepieces, infrared,
                              lithography, microscopes, telescopes)

TMP = tempfile.mkdtemp(prefix='c20_equiv_')
PROBE_WL = (0.45, 0.5876, 0.7)


def fx(v):
    """Exact, stable text for a number (hex for floats)."""
    if isinstance(v, (bool, np.bool_)):
        return repr(bool(v))
    if isinstance(v, (float, np.floating)):
        return float(v).hex()
    if isinstance(v, (int, np.integer)):
        return repr(int(v))
    if isinstance(v, np.ndarray):
        return '[' + ','.join(fx(x) for x in v.ravel()) + ']'
    if isinstance(v, (list, tuple)):
        return type(v).__name__ + '(' + ','.join(fx(x) for x in v) + ')'
    return repr(v)


def mat_digest(m):
    if isinstance(m, str):
        return 'str:' + repr(m)
    if isinstance(m, tuple):
        return 'tuple:' + repr(m)
    if m is None:
        return 'None'
    name = type(m).__name__
    if isinstance(m, Material):
        ns = ','.join(fx(float(m.n(w))) for w in PROBE_WL)
        return (f'Material({m.name!r},{m.reference!r},'
                f'{os.path.basename(str(m.material_data["filename"]))!r},'
                f'n={ns})')
    if isinstance(m, AbbeMaterial):
        ns = ','.join(fx(float(m.n(w))) for w in PROBE_WL)
        return f'Abbe({fx(m.index)},{fx(m.abbe)},n={ns})'
    if isinstance(m, IdealMaterial):
        return f'Ideal({fx(float(m.n(0.55)))})'
    return name


def data_digest(d):
    """Stable text of the reader's data dictionary (insertion order kept)."""
    if isinstance(d, dict):
        return '{' + ', '.join(f'{k!r}: {data_digest(v)}'
                               for k, v in d.items()) + '}'
    if isinstance(d, BaseMaterial):
        return mat_digest(d)
    if isinstance(d, (list, tuple)):
        return (type(d).__name__ + '(' +
                ', '.join(data_digest(x) for x in d) + ')')
    return fx(d)


def lens_digest(lens):
    out = []
    sg = lens.surface_group
    out.append(f'nsurf={sg.num_surfaces} stop={sg.stop_index}')
    out.append('radii=' + fx(np.asarray(sg.radii, dtype=float)))
    out.append('conic=' + fx(np.asarray(sg.conic, dtype=float)))
    out.append('z=' + fx(np.asarray(sg.positions, dtype=float)))
    for i, s in enumerate(sg.surfaces):
        g = s.geometry
        coeffs = getattr(g, 'c', None)
        out.append(f' s{i}: {type(s).__name__}/{type(g).__name__} '
                   f'k={fx(float(getattr(g, "k", 0.0)))} '
                   f'c={fx(list(coeffs)) if coeffs is not None else None} '
                   f'refl={getattr(s, "is_reflective", None)} '
                   f'stop={s.is_stop} '
                   f'pre={mat_digest(getattr(s, "material_pre", None))} '
                   f'post={mat_digest(s.material_post)}')
    ap = lens.aperture
    out.append(f'aperture={ap.ap_type!r} {fx(ap.value)}')
    out.append(f'field_type={lens.field_type!r} '
               f'tele={lens.obj_space_telecentric}')
    out.append('fields=' + ';'.join(
        f'({fx(f.x)},{fx(f.y)},{fx(f.vx)},{fx(f.vy)},{f.field_type!r})'
        for f in lens.fields.fields))
    out.append('waves=' + ';'.join(f'({fx(w.value)},{w.is_primary})'
                                   for w in lens.wavelengths.wavelengths))
    for name in ('f1', 'f2', 'F1', 'F2', 'P1', 'P2', 'N1', 'N2', 'EPD',
                 'EPL', 'XPD', 'XPL', 'FNO', 'magnification'):
        try:
            val = getattr(lens.paraxial, name)()
            out.append(f'{name}={fx(np.asarray(val, dtype=float))}')
        except Exception as e:  # noqa
            out.append(f'{name}!{type(e).__name__}:{e}')
    return '\n'.join(out)


_counter = [0]


def write_text(text, encoding):
    _counter[0] += 1
    fn = os.path.join(TMP, f'f{_counter[0]}.zmx')
    with open(fn, 'w', encoding=encoding, newline='') as f:
        f.write(text)
    return fn


def run_file(text, encoding='utf-8'):
    """Load the text through the public API; returns the digest text."""
    fn = write_text(text, encoding)
    buf = io.StringIO()
    parts = []
    try:
        with contextlib.redirect_stdout(buf):
            reader = ZemaxFileReader(fn)
    except Exception as e:  # noqa
        return (f'READER!{type(e).__name__}:{e}\nstdout={buf.getvalue()!r}')
    parts.append('data=' + data_digest(reader.data))
    parts.append('cur=' + data_digest(reader._current_surf_data) +
                 f' idx={reader._current_surf}')
    try:
        with contextlib.redirect_stdout(buf):
            lens = reader.generate_lens()
            dig = lens_digest(lens)
        parts.append(dig)
    except Exception as e:  # noqa
        parts.append(f'CONVERT!{type(e).__name__}:{e}')
    try:
        with contextlib.redirect_stdout(buf):
            lens2 = load_zemax_file(fn)
            same = lens_digest(lens2) == parts[-1]
        parts.append(f'load_zemax_file same={same}')
    except Exception as e:  # noqa
        parts.append(f'LOAD!{type(e).__name__}:{e}')
    parts.append(f'stdout={buf.getvalue()!r}')
    return '\n'.join(parts)


def call_method(reader, name, data):
    """Call one private line handler (as the unit tests do) and digest the
    outcome and the full reader state afterwards."""
    buf = io.StringIO()
    try:
        with contextlib.redirect_stdout(buf):
            ret = getattr(reader, name)(data)
        res = f'ret={ret!r}'
    except Exception as e:  # noqa
        res = f'EXC {type(e).__name__}:{e}'
    return (f'{name}({data!r}) -> {res}\n   data={data_digest(reader.data)}'
            f'\n   cur={data_digest(reader._current_surf_data)}'
            f'\n   stdout={buf.getvalue()!r}')


# ----------------------------------------------------------------------
# sample lenses -> .zmx text
# ----------------------------------------------------------------------
def zmx_from_lens(lens, newline='\n', model_name='MODELGLASS'):
    lines = ['VERS 140124 258 36214', 'MODE SEQ', 'NAME exported',
             'UNIT MM X W X CM MR CPMM']
    ap = lens.aperture
    if ap.ap_type == 'EPD':
        lines.append(f'ENPD {ap.value!r}')
    elif ap.ap_type == 'imageFNO':
        lines.append(f'FNUM {ap.value!r} 0')
    elif ap.ap_type == 'paraxialImageFNO':
        lines.append(f'FNUM {ap.value!r} 1')
    elif ap.ap_type == 'objectNA':
        lines.append(f'OBNA {ap.value!r} 0')
    else:
        raise ValueError('aperture')
    refs = []
    for s in lens.surface_group.surfaces:
        m = s.material_post
        if isinstance(m, Material) and m.reference and \
                m.reference.upper() not in refs:
            refs.append(m.reference.upper())
    lines.append('GCAT ' + ' '.join(['SCHOTT'] + refs))
    ftype = {'angle': 0, 'object_height': 1}[lens.field_type]
    flds = lens.fields.fields
    wls = lens.wavelengths.wavelengths
    lines.append(f'FTYP {ftype} 0 {len(flds)} {len(wls)} 0 0 0')
    lines.append('XFLN ' + ' '.join(repr(float(f.x)) for f in flds))
    lines.append('YFLN ' + ' '.join(repr(float(f.y)) for f in flds))
    prim = [i for i, w in enumerate(wls) if w.is_primary][0]
    lines.append(f'PWAV {prim + 1}')
    for i, w in enumerate(wls):
        lines.append(f'WAVM {i + 1} {float(w.value)!r} 1')
    sg = lens.surface_group
    z = np.asarray(sg.positions, dtype=float).ravel()
    n = sg.num_surfaces
    for i, s in enumerate(sg.surfaces):
        lines.append(f'SURF {i}')
        if s.is_stop:
            lines.append('  STOP')
        g = s.geometry
        gname = type(g).__name__
        if gname == 'EvenAsphere':
            lines.append('  TYPE EVENASPH')
        elif gname in ('Plane', 'StandardGeometry'):
            lines.append('  TYPE STANDARD')
        else:
            raise ValueError('geometry ' + gname)
        r = float(getattr(g, 'radius', np.inf))
        lines.append('  CURV ' + ('0.0' if np.isinf(r) else repr(1.0 / r)))
        if gname == 'EvenAsphere':
            c = list(g.c) + [0.0] * 8
            for k in range(8):
                lines.append(f'  PARM {k + 1} {float(c[k])!r}')
        if i == 0:
            t = -z[0]
        elif i == n - 1:
            t = 0.0
        else:
            t = z[i + 1] - z[i]
        lines.append('  DISZ ' + ('INFINITY' if np.isinf(t) else repr(float(t))))
        k = float(getattr(g, 'k', 0.0))
        if k != 0.0:
            lines.append(f'  CONI {k!r}')
        m = s.material_post
        if getattr(s, 'is_reflective', False):
            lines.append('  GLAS MIRROR 0 0 1.5 40')
        elif isinstance(m, Material):
            nd = float(m.n(0.5875618))
            vd = (nd - 1) / float(m.n(0.4861327) - m.n(0.6562725))
            lines.append(f'  GLAS {m.name} 1 0 {nd!r} {vd!r}')
        elif isinstance(m, IdealMaterial):
            nd = float(m.n(0.55))
            if nd != 1.0:
                lines.append(f'  GLAS {model_name} 1 0 {nd!r} 55.5')
        elif isinstance(m, AbbeMaterial):
            lines.append(f'  GLAS {model_name} 1 0 {m.index!r} {m.abbe!r}')
        else:
            raise ValueError('material')
    return newline.join(lines) + newline


def all_sample_lenses():
    mods = (simple, objectives, eyepieces, infrared, lithography,
            microscopes, telescopes)
    out = []
    for mod in mods:
        for name, cls in sorted(vars(mod).items()):
            if inspect.isclass(cls) and cls.__module__ == mod.__name__:
                out.append((f'{mod.__name__.split(".")[-1]}.{name}', cls))
    return out


class Digest:
    def __init__(self):
        self.sha = hashlib.sha1()
        self.n = 0

    def section(self, title, text, show=True):
        self.n += 1
        h = hashlib.sha1(text.encode('utf-8')).hexdigest()
        self.sha.update(title.encode('utf-8') + b'\0' + text.encode('utf-8'))
        print(f'## {title}  sha1={h}')
        if show:
            print(text)

    def finish(self):
        print(f'TOTAL sections={self.n} sha1={self.sha.hexdigest()}')


def run_samples(dg, encodings=('utf-8', 'utf-16'), show=False):
    for name, cls in all_sample_lenses():
        buf = io.StringIO()
        try:
            with contextlib.redirect_stdout(buf):
                lens = cls()
                text = zmx_from_lens(lens)
        except Exception as e:  # noqa
            dg.section(f'sample {name}', f'EXPORT!{type(e).__name__}:{e}')
            continue
        for enc in encodings:
            nl_text = text if enc == 'utf-8' else text.replace('\n', '\r\n')
            dg.section(f'sample {name} [{enc}]', run_file(nl_text, enc),
                       show=show)


def run_repo_files(dg, root):
    for fn in ('lens1.zmx', 'lens2.zmx'):
        path = os.path.join(root, 'tests', 'zemax_files', fn)
        buf = io.StringIO()
        with contextlib.redirect_stdout(buf):
            reader = ZemaxFileReader(path)
            lens = reader.generate_lens()
            txt = ('data=' + data_digest(reader.data) + '\n' +
                   lens_digest(lens))
        dg.section(f'repo file {fn}', txt + f'\nstdout={buf.getvalue()!r}')


HEADER = '''MODE SEQ
ENPD 10.0
GCAT SCHOTT HIKARI
FTYP 0 0 2 3 0 0 0
XFLN 0.0 0.0
YFLN 0.0 5.0
PWAV 2
WAVM 1 0.4861327 1
WAVM 2 0.5875618 1
WAVM 3 0.6562725 1
'''


def singlet(curv1='0.02', curv2='-0.02', t0='INFINITY', t1='5.0', t2='45.0',
            glas='GLAS N-BK7 1 0 1.5168 64.17', header=HEADER,
            type1='STANDARD', extra1='', extra2=''):
    return (header +
            f'SURF 0\n  TYPE STANDARD\n  CURV 0.0\n  DISZ {t0}\n'
            f'SURF 1\n  STOP\n  TYPE {type1}\n  CURV {curv1}\n{extra1}'
            f'  DISZ {t1}\n  {glas}\n'
            f'SURF 2\n  TYPE STANDARD\n  CURV {curv2}\n{extra2}'
            f'  DISZ {t2}\n'
            f'SURF 3\n  TYPE STANDARD\n  CURV 0.0\n  DISZ 0.0\n')


# ----------------------------------------------------------------------
# main
# ----------------------------------------------------------------------
ROOT = os.environ.get('C20_ROOT', '/tmp/tw6/C20')


def fresh_reader():
    buf = io.StringIO()
    with contextlib.redirect_stdout(buf):
        return ZemaxFileReader(write_text(singlet(), 'utf-8'))


def main():
    dg = Digest()
    run_repo_files(dg, ROOT)
    run_samples(dg, show=False)

    # FTYP lines inside whole files: every field-type code, flags, malformed
    ftyp_lines = [
        'FTYP 0 0 2 3 0 0 0', 'FTYP 1 0 2 3 0 0 0', 'FTYP 2 0 2 3 0 0 0',
        'FTYP 3 0 2 3 0 0 0', 'FTYP 4 0 2 3 0 0 0', 'FTYP 5 0 2 3 0 0 0',
        'FTYP 10 0 2 3 0 0 0', 'FTYP -1 0 2 3 0 0 0', 'FTYP 00 0 2 3 0 0 0',
        'FTYP +1 0 2 3 0 0 0', 'FTYP 01 1 2 3 0 0 1', 'FTYP 0 1 2 3 0 0 0',
        'FTYP 0 2 2 3 0 0 2', 'FTYP 0 -1 2 3 0 0 -1', 'FTYP 0 0 2 3 0 0 1',
        'FTYP 0 1 1 1 0 0 1', 'FTYP 1 0 2 2 0 0 0 7 7 7',
        'FTYP 0 0 0 3 0 0 0', 'FTYP 0 0 5 12 0 0 0', 'FTYP 1_0 0 2 3 0 0 0',
        # too short (IndexError is swallowed by the file loop, part of the
        # state is already written)
        'FTYP 0 0 2 3 0 0', 'FTYP 1 1 2 3', 'FTYP 1 1 2', 'FTYP 1', 'FTYP',
        # not integers (ValueError escapes from the reader)
        'FTYP 0.0 0 2 3 0 0 0', 'FTYP 0 0 2.0 3 0 0 0', 'FTYP 0 x 2 3 0 0 0',
        'FTYP 0 0 2 3 0 0 y', 'FTYP 0 0 2 three 0 0 0', 'FTYP a 0 2 3 0 0 0',
        'FTYP 1 0 2 3 0 0 0\nFTYP 3 1', 'FTYP 3 1 1 1 0 0 1\nFTYP 0 0 2 3 0 0 0',
    ]
    base = 'FTYP 0 0 2 3 0 0 0'
    for line in ftyp_lines:
        for enc in ('utf-8', 'utf-16'):
            text = singlet(header=HEADER.replace(base, line))
            dg.section(f'file with {line!r} [{enc}]', run_file(text, enc))
    # the same header without an FTYP line at all
    dg.section('file without FTYP',
               run_file(singlet(header=HEADER.replace(base + '\n', ''))))
    # object-height fields with a finite object
    text = singlet(header=HEADER.replace(base, 'FTYP 1 0 2 3 0 0 0'),
                   t0='100.0')
    dg.section('object height, finite object', run_file(text))

    # the handler called directly (as the unit tests do), with a history
    reader = fresh_reader()
    calls = [
        ['FTYP', '0', '0', '0', '0', '0', '0', '0'],
        ['FTYP', '1', '0', '0', '0', '0', '0', '0'],
        ['FTYP', '2', '1', '3', '4', '0', '0', '1'],
        ['FTYP', '3', '2', '3', '4', '0', '0', '2'],
        ['FTYP', '4', '1', '1', '1', '9', '9', '0'],
        ['FTYP', '10', '0', '0', '0', '0', '0', '0'],
        ['FTYP', '-0', '0', '0', '0', '0', '0', '0'],
        ['FTYP', ' 1 ', '1', '7', '8', '0', '0', '1'],
        ['FTYP', '99999999999999999999', '0', '2', '2', '0', '0', '0'],
        ['FTYP', '1', '1', '5', '6'],             # IndexError at data[7]
        ['FTYP', '2', '0', '9'],                  # IndexError at data[4]
        ['FTYP', '3'],                            # IndexError at data[3]
        ['FTYP', 'q', '1', '4', '4', '0', '0', '1'],   # ValueError at type
        ['FTYP', '4', 'q', '6', '6', '0', '0', '1'],   # ValueError at tele
        ['FTYP', '0', '1', '2', '2', '0', '0', 'q'],   # ValueError at afocal
        ['FTYP', '0', '1', 'q', '2', '0', '0', '1'],   # ValueError at num
        ['FTYP', '1', '0', '3', 'q', '0', '0', '0'],   # ValueError at nwave
        ['FTYP', '1.5', '0', '3', '3', '0', '0', '0'],
        [],
    ]
    txt = []
    for c in calls:
        txt.append(call_method(reader, '_read_config_data', c))
    # ints instead of strings, and the reader without its 'fields' entry
    txt.append(call_method(reader, '_read_config_data',
                           ['FTYP', 1, True, 2, 3, 0, 0, 1.0]))
    del reader.data['fields']
    txt.append(call_method(reader, '_read_config_data',
                           ['FTYP', '1', '0', '3', '3', '0', '0', '0']))
    txt.append(call_method(reader, '_read_config_data', ['FTYP', '1']))
    dg.section('direct calls of _read_config_data', '\n'.join(txt))
    dg.section('public attributes of the reader class',
               repr(sorted(n for n in vars(ZemaxFileReader))))
    dg.finish()


if __name__ == '__main__':
    main()

"""Equivalence digest for the tolerancing property (change C15-tw-1).

Exercises Tolerancing.apply_compensators / reset / evaluate through
SensitivityAnalysis and MonteCarlo on several sample lenses, with zero, one
and two compensators, both optimiser back-ends, scaled and unscaled
compensator variables, pickups + solves, ray-failing perturbations and the
error paths.  Prints exact (float.hex) values and a final sha1.
"""
import contextlib
import hashlib
import io
import warnings

import numpy as np

from optiland.samples.simple import (Edmund_49_847, AsphericSinglet,
                                     TelescopeDoublet, SingletStopSurf2)
from optiland.samples.objectives import CookeTriplet, ReverseTelephoto
from optiland.tolerancing.core import Tolerancing
from optiland.tolerancing.perturbation import (ScalarSampler, RangeSampler,
                                               DistributionSampler)
from optiland.tolerancing.sensitivity_analysis import SensitivityAnalysis
from optiland.tolerancing.monte_carlo import MonteCarlo

warnings.simplefilter('ignore')
LINES = []


def hx(v):
    """Exact, stable text form of a value."""
    if v is None:
        return 'None'
    if isinstance(v, str):
        return repr(v)
    try:
        f = float(v)
    except (TypeError, ValueError):
        return repr(v)
    if f != f:
        return 'nan'
    return f.hex()


def emit(*parts):
    line = ' '.join(str(p) for p in parts)
    LINES.append(line)
    print(line)


def lens_state(optic):
    sg = optic.surface_group
    out = []
    out += [hx(r) for r in sg.radii]
    out += [hx(k) for k in sg.conic]
    for s in sg.surfaces:
        cs = s.geometry.cs
        out += [hx(cs.x), hx(cs.y), hx(cs.z), hx(cs.rx), hx(cs.ry)]
        c = getattr(s.geometry, 'c', None)
        if c is not None:
            out += [hx(ci) for ci in np.ravel(c)]
    out += [hx(n) for n in np.ravel(optic.n(optic.primary_wavelength))]
    return hashlib.sha1('|'.join(out).encode()).hexdigest()[:16]


def frame_digest(df):
    emit('  columns', list(df.columns), 'shape', df.shape)
    for _, row in df.iterrows():
        emit('  row', [hx(v) for v in row.tolist()])


def quiet(fn, *a, **k):
    buf = io.StringIO()
    with contextlib.redirect_stdout(buf):
        res = fn(*a, **k)
    return res, hashlib.sha1(buf.getvalue().encode()).hexdigest()[:12]


def add_ops(tol, optic, kinds):
    for kind in kinds:
        if kind == 'f2':
            tol.add_operand('f2', {'optic': optic})
        elif kind == 'f1':
            tol.add_operand('f1', {'optic': optic})
        elif kind == 'spot':
            tol.add_operand('rms_spot_size', {
                'optic': optic, 'surface_number': -1, 'Hx': 0, 'Hy': 0,
                'num_rays': 3, 'wavelength': optic.primary_wavelength,
                'distribution': 'hexapolar'}, target=0.0)
        elif kind == 'yint':
            tol.add_operand('real_y_intercept', {
                'optic': optic, 'surface_number': -1, 'Hx': 0, 'Hy': 1,
                'Px': 0, 'Py': 0, 'wavelength': optic.primary_wavelength})
        elif kind == 'SC':
            tol.add_operand('SC_sum', {'optic': optic}, weight=0.5)


def run_sens(tag, optic, tol):
    before = lens_state(optic)
    sa = SensitivityAnalysis(tol)
    try:
        _, printed = quiet(sa.run)
        emit(tag, 'sens ok printed', printed)
    except Exception as e:  # noqa
        emit(tag, 'sens raised', type(e).__name__, str(e))
    frame_digest(sa.get_results())
    emit(tag, 'state-after-run', lens_state(optic), 'nominal', before,
         'same', lens_state(optic) == before)
    emit(tag, 'pvalues', [hx(p.value) for p in tol.perturbations])
    tol.reset()
    emit(tag, 'state-after-reset', lens_state(optic))


def run_mc(tag, optic, tol, n):
    before = lens_state(optic)
    mc = MonteCarlo(tol)
    try:
        _, printed = quiet(mc.run, n)
        emit(tag, 'mc ok printed', printed)
    except Exception as e:  # noqa
        emit(tag, 'mc raised', type(e).__name__, str(e))
    frame_digest(mc.get_results())
    emit(tag, 'state-after-run', lens_state(optic), 'nominal', before,
         'same', lens_state(optic) == before)
    emit(tag, 'pvalues', [hx(p.value) for p in tol.perturbations])
    tol.reset()
    emit(tag, 'state-after-reset', lens_state(optic))


# ---------------------------------------------------------------- scenarios
def s_no_comp():
    for cls in (Edmund_49_847, CookeTriplet, TelescopeDoublet):
        optic = cls()
        tol = Tolerancing(optic)
        add_ops(tol, optic, ['f2', 'spot', 'SC'])
        r1 = optic.surface_group.radii[1]
        tol.add_perturbation('radius', RangeSampler(r1 * 0.98, r1 * 1.02, 3),
                             surface_number=1)
        tol.add_perturbation('tilt', RangeSampler(-0.01, 0.01, 2),
                             surface_number=2, axis='x')
        tol.add_perturbation('decenter', RangeSampler(-0.1, 0.1, 2),
                             surface_number=1, axis='y')
        emit(cls.__name__, 'apply_compensators(no vars) ->',
             repr(tol.apply_compensators()))
        run_sens(cls.__name__ + '/nocomp', optic, tol)
        run_mc(cls.__name__ + '/nocomp', optic, tol, 3)


def s_comp(method, scaling):
    for cls in (Edmund_49_847, ReverseTelephoto, SingletStopSurf2):
        optic = cls()
        tol = Tolerancing(optic, method=method, tol=1e-6)
        add_ops(tol, optic, ['f2', 'spot'])
        r1 = optic.surface_group.radii[1]
        tol.add_perturbation('radius', RangeSampler(r1 * 0.99, r1 * 1.01, 3),
                             surface_number=1)
        tol.add_perturbation('thickness',
                             DistributionSampler('normal', seed=7, loc=7.0,
                                                 scale=0.05),
                             surface_number=1)
        last = optic.surface_group.num_surfaces - 2
        tol.add_compensator('thickness', surface_number=last,
                            apply_scaling=scaling)
        tol.add_compensator('conic', surface_number=1,
                            apply_scaling=scaling, min_val=-1.0, max_val=1.0)
        tag = f'{cls.__name__}/{method}/scale={scaling}'
        res, printed = quiet(tol.apply_compensators)
        emit(tag, 'direct apply_compensators', list(res.keys()),
             [hx(v) for v in res.values()], type(res).__name__)
        emit(tag, 'comp.operands is tol.operands',
             tol.compensator.operands is tol.operands)
        tol.reset()
        emit(tag, 'state-after-reset', lens_state(optic))
        run_mc(tag, optic, tol, 3)
        # sensitivity must reject the distribution sampler *after* the
        # first perturbation was swept
        run_sens(tag, optic, tol)


def s_single_comp_sens():
    optic = ReverseTelephoto()
    tol = Tolerancing(optic, method='least_squares')
    add_ops(tol, optic, ['f1', 'f2'])
    tol.add_perturbation('radius', RangeSampler(90, 110, 4),
                         surface_number=1)
    tol.add_perturbation('index', RangeSampler(1.50, 1.53, 2),
                         surface_number=1, wavelength=0.55)
    tol.add_compensator('thickness', surface_number=2)
    run_sens('RevTele/ls', optic, tol)


def s_pickup_solve():
    optic = CookeTriplet()
    optic.pickups.add(1, 'radius', 6, scale=-1, offset=0.0)
    optic.solves.add('marginal_ray_height', 6, 0.0)
    for comp in (False, True):
        tol = Tolerancing(optic, method='least_squares')
        add_ops(tol, optic, ['f2', 'yint'])
        r1 = optic.surface_group.radii[1]
        tol.add_perturbation('radius', RangeSampler(r1 * 0.97, r1 * 1.03, 3),
                             surface_number=1)
        tol.add_perturbation('conic',
                             DistributionSampler('uniform', seed=3, low=-0.1,
                                                 high=0.1),
                             surface_number=3)
        if comp:
            tol.add_compensator('thickness', surface_number=3)
        res, _ = quiet(tol.apply_compensators)
        emit('Cooke/pickup comp', comp, 'direct', list(res.items()) == [] if
             not comp else [(k, hx(v)) for k, v in res.items()])
        run_mc(f'Cooke/pickup comp={comp}', optic, tol, 4)


def s_ray_failure():
    optic = Edmund_49_847()
    for comp in (False, True):
        tol = Tolerancing(optic, method='least_squares')
        add_ops(tol, optic, ['spot', 'f2'])
        # radius smaller than the semi-aperture: marginal rays miss
        tol.add_perturbation('radius', RangeSampler(5.0, 19.93, 3),
                             surface_number=1)
        if comp:
            tol.add_compensator('thickness', surface_number=2)
        run_sens(f'Edmund/rayfail comp={comp}', optic, tol)
        run_mc(f'Edmund/rayfail comp={comp}', optic, tol, 4)


def s_asphere_nominal():
    optic = AsphericSinglet()
    tol = Tolerancing(optic)
    add_ops(tol, optic, ['f2', 'spot'])
    nominal = tol.evaluate()
    c0 = optic.surface_group.surfaces[1].geometry.c[0]
    tol.add_perturbation('asphere_coeff', ScalarSampler(c0),
                         surface_number=1, coeff_number=0)
    tol.add_perturbation('radius', ScalarSampler(20.0), surface_number=1)
    tol.add_perturbation('thickness', ScalarSampler(7), surface_number=1)
    mc = MonteCarlo(tol)
    quiet(mc.run, 2)
    df = mc.get_results()
    frame_digest(df)
    emit('Asph nominal reproduces',
         [hx(v) for v in nominal],
         [hx(df.iloc[0]['0: f2']), hx(df.iloc[0]['1: rms spot size'])]
         if '1: rms spot size' in df.columns else list(df.columns))
    quiet(mc.run, 0)
    emit('Asph zero-iter', mc.get_results().shape, lens_state(optic))


def s_errors():
    optic = Edmund_49_847()
    tol = Tolerancing(optic, method='bogus')
    add_ops(tol, optic, ['f2'])
    tol.add_perturbation('radius', ScalarSampler(21.0), surface_number=1)
    emit('bogus method, no vars ->', repr(tol.apply_compensators()))
    tol.add_compensator('thickness', surface_number=2)
    tol.perturbations[0].apply()
    try:
        tol.apply_compensators()
    except Exception as e:  # noqa
        emit('bogus method raised', type(e).__name__, str(e))
    emit('state', lens_state(optic), 'comp.operands shared',
         tol.compensator.operands is tol.operands)
    tol.reset()
    emit('state reset', lens_state(optic))
    try:
        tol.add_perturbation('nonsense', ScalarSampler(1.0), surface_number=1)
    except Exception as e:  # noqa
        emit('bad variable type', type(e).__name__, str(e))
    tol2 = Tolerancing(Edmund_49_847())
    add_ops(tol2, tol2.optic, ['f2'])
    tol2.add_perturbation('radius', DistributionSampler('cauchy', seed=1),
                          surface_number=1)
    run_mc('bad-distribution', tol2.optic, tol2, 2)


for scen in (s_no_comp,
             lambda: s_comp('least_squares', True),
             lambda: s_comp('least_squares', False),
             lambda: s_comp('generic', True),
             s_single_comp_sens, s_pickup_solve, s_ray_failure,
             s_asphere_nominal, s_errors):
    scen()

print('SHA1', hashlib.sha1('\n'.join(LINES).encode()).hexdigest())

"""C07 / 4 - Optic.scale_system does not scale the lengths held by solves and
pickups: the next Optic.update() (every optimiser iteration calls it) undoes
the scaling of the surfaces they control, so the "scaled lens" is not the
scaled lens.

Lens A: singlet with a marginal-ray-height solve on the image surface
        (height 0.3 mm: image plane placed where the marginal ray is 0.3 mm
        above the axis).
Lens B: the same singlet followed by a plane dummy whose gap is picked up from
        the lens thickness with offset -2 mm (gap = 6 - 2 = 4 mm).

Both are scaled with scale_system(2) and then updated.  Expected: every
vertex position is twice the original one; for lens A this is cross-checked
with an own y-nu trace of the scaled lens with the scaled target height.
"""
import sys
import warnings
import numpy as np
from optiland.optic import Optic
from optiland.materials import IdealMaterial

warnings.simplefilter('ignore')
N_G, R1, T1, R2, EPD, H = 1.7, 40.0, 6.0, -30.0, 10.0, 0.3
S = 2.0


def base():
    o = Optic()
    o.add_surface(index=0, thickness=np.inf)
    o.add_surface(index=1, radius=R1, conic=-0.7, thickness=T1,
                  material=IdealMaterial(N_G), is_stop=True)
    return o


def finish(o, idx):
    o.add_surface(index=idx)
    o.set_aperture('EPD', EPD)
    o.set_field_type('angle')
    o.add_field(0)
    o.add_field(8)
    o.add_wavelength(0.55, is_primary=True)
    return o


def lens_a():
    o = base()
    o.add_surface(index=2, radius=R2, thickness=30.0)
    finish(o, 3)
    o.solves.add('marginal_ray_height', 3, H)
    return o


def lens_b():
    o = base()
    o.add_surface(index=2, radius=R2, thickness=30.0)
    o.add_surface(index=3, thickness=5.0)
    finish(o, 4)
    o.pickups.add(1, 'thickness', 3, scale=1, offset=-2.0)
    return o


def ynu_image_position(s):
    """z of the plane where the marginal ray of the lens scaled by s has the
    height H * s (own paraxial trace)"""
    y, u = EPD * s / 2, 0.0
    u = (u - y * (N_G - 1.0) / (R1 * s)) / N_G
    y += u * T1 * s
    u = N_G * u - y * (1.0 - N_G) / (R2 * s)
    return T1 * s + (H * s - y) / u


def z(o):
    return np.array([float(p) for p in o.surface_group.positions.ravel()[1:]])


bad = False
for name, make in (('A (solve, height 0.3)', lens_a),
                   ('B (thickness pickup, offset -2)', lens_b)):
    o = make()
    z0 = z(o)
    o.scale_system(S)
    z1 = z(o)
    o.update()
    z2 = z(o)
    print('lens %s' % name)
    print('   vertex z, original            :', z0)
    print('   expected after scaling by %g   :' % S, S * z0)
    print('   after scale_system            :', z1)
    print('   after scale_system + update() :', z2)
    if name.startswith('A'):
        print('   own y-nu: image plane of the scaled lens at z = %.6f '
              '(original lens: %.6f)' % (ynu_image_position(S),
                                         ynu_image_position(1.0)))
        bad |= abs(z2[-1] - ynu_image_position(S)) > 1e-9
    if np.abs(z2 - S * z0).max() > 1e-9:
        print('   VIOLATION: update() moved the scaled lens by %.6f mm'
              % np.abs(z2 - S * z0).max())
        bad = True
    # the stored lengths themselves
if True:
    o = lens_a(); o.scale_system(S)
    print('solve height after scale_system :', o.solves.solves[0].height,
          '(expected %g)' % (H * S))
    o = lens_b(); o.scale_system(S)
    print('pickup offset after scale_system:', o.pickups.pickups[0].offset,
          '(expected %g)' % (-2.0 * S))
sys.exit(1 if bad else 0)

"""C19 / 1 - the conic constant of a flattened surface is not saved.

A parabolic surface (R = 50, k = -1) is made flat for a moment with
set_radius(inf) (which since the set_radius repair keeps the conic on the
Plane geometry), the lens is saved and reloaded, and the radius is put back.
The original lens is a parabola again, the reloaded lens is a sphere.
"""
import sys
import json
import os
import tempfile
import warnings
import numpy as np
from optiland.optic import Optic
from optiland.fileio.optiland_handler import (save_optiland_file,
                                               load_optiland_file)

warnings.filterwarnings('ignore')
R, K, N_GLASS, H = 50.0, -1.0, 1.5, 10.0


def build():
    from optiland.materials import IdealMaterial
    o = Optic()
    o.add_surface(index=0, thickness=np.inf)
    o.add_surface(index=1, radius=R, conic=K, thickness=5,
                  material=IdealMaterial(N_GLASS), is_stop=True)
    o.add_surface(index=2, radius=-80, thickness=60)
    o.add_surface(index=3)
    o.set_aperture('EPD', 2 * H)
    o.set_field_type('angle')
    o.add_field(0)
    o.add_wavelength(0.55, is_primary=True)
    return o


def reference_direction_after_first_surface(k):
    """Independent refraction of the ray x=0, y=H, direction +z at the conic
    z = c r^2 / (1 + sqrt(1 - (1+k) c^2 r^2)); returns the direction cosine M
    inside the glass (vector form of Snell's law)."""
    c = 1 / R
    dzdy = c * H / np.sqrt(1 - (1 + k) * c**2 * H**2)
    n = np.array([0.0, dzdy, -1.0])
    n /= np.linalg.norm(n)
    d = np.array([0.0, 0.0, 1.0])
    mu = 1.0 / N_GLASS
    cosi = -np.dot(n, d)
    t = mu * d + (mu * cosi - np.sqrt(1 - mu**2 * (1 - cosi**2))) * n
    return t[1]


bad = False

lens = build()
lens.set_radius(np.inf, 1)          # flat for now; conic is kept (k = -1)

fn = os.path.join(tempfile.mkdtemp(), 'lens.json')
save_optiland_file(lens, fn)
loaded = load_optiland_file(fn)
via_dict = Optic.from_dict(lens.to_dict())

# 1. prescription
k_orig = float(lens.surface_group.conic[1])
for label, other in (('json', loaded), ('dict', via_dict)):
    k_new = float(other.surface_group.conic[1])
    print(f'[{label}] conic of surface 1: original {k_orig}, reloaded {k_new}'
          f' (expected {K})')
    if k_new != K:
        bad = True

# 2. the same edit on both lenses
lens.set_radius(R, 1)
loaded.set_radius(R, 1)
M_expected = reference_direction_after_first_surface(K)
M_sphere = reference_direction_after_first_surface(0.0)
for label, o in (('original', lens), ('reloaded', loaded)):
    o.trace_generic(0.0, 0.0, 0.0, 1.0, 0.55)
    M = float(o.surface_group.M[1, 0])
    y_img = float(o.surface_group.y[-1, 0])
    print(f'{label}: M after surface 1 = {M:.9f} (parabola reference '
          f'{M_expected:.9f}, sphere would give {M_sphere:.9f}); '
          f'y at image = {y_img:.6f}')
    if abs(M - M_expected) > 1e-9:
        bad = True

# 3. a conic pickup whose source is the flattened surface
lens2 = build()
lens2.pickups.add(1, 'conic', 2)
lens2.set_radius(np.inf, 1)
lens2.update()                       # fine on the original
reloaded2 = Optic.from_dict(json.loads(json.dumps(lens2.to_dict())))
try:
    reloaded2.update()
    print('update() of the reloaded lens with a conic pickup: ok')
except Exception as e:               # noqa
    print('update() of the reloaded lens with a conic pickup raises',
          repr(e), '(the original lens updates without error)')
    bad = True

sys.exit(1 if bad else 0)

"""C07 / scaling clause, paraxial ray heights.

Finite object distance + field type 'angle'.  Optic.paraxial.trace(Hy, Py, wl)
must launch the paraxial ray from the object point at height
-tan(field) * (EPL - z_obj) with the slope that takes it to the pupil point
Py*EPD/2.  Multiplying every length of the prescription by s must multiply all
paraxial ray heights by s and leave the slopes unchanged.

Independent reference: an own y-nu trace through the same prescription (entrance
pupil found by an own reverse y-nu trace), plus a second path through the API
(Paraxial.chief_ray and the real chief ray from trace_generic).
"""
import sys
import warnings
import numpy as np
from optiland.optic import Optic
from optiland.materials import IdealMaterial

warnings.simplefilter('ignore')

R = [np.inf, 22.0, -435.0, -22.2, 20.3, 79.7, -18.4, np.inf]
T = [200.0, 3.26, 6.0, 1.0, 4.75, 2.95, 55.0, 0.0]
N = [1.0, 1.62, 1.0, 1.60, 1.0, 1.62, 1.0, 1.0]
STOP = 4
NA = 0.03
FIELD = 2.0          # deg, small so that real and paraxial chief rays agree
WL = 0.55


def build(s):
    o = Optic()
    for i in range(len(R)):
        mat = 'air' if N[i] == 1.0 else IdealMaterial(N[i])
        o.add_surface(index=i, radius=R[i] * s, thickness=T[i] * s,
                      material=mat, is_stop=(i == STOP))
    o.set_aperture('objectNA', NA)
    o.set_field_type('angle')
    o.add_field(0.0)
    o.add_field(FIELD)
    o.add_wavelength(WL, is_primary=True)
    return o


def own_trace(s, Hy, Py):
    """own y-nu trace; returns heights on surfaces 0..image and slopes"""
    r = [x * s for x in R]
    t = [x * s for x in T]
    # entrance pupil: reverse trace from the stop centre to surface 1
    y, u, n = 0.0, 0.1, N[STOP - 1]
    for k in range(STOP - 1, 0, -1):
        y += t[k] * u
        n_new = N[k - 1]
        u = (n * u - y * (-1.0 / r[k]) * (n_new - n)) / n_new
        n = n_new
    epl = y / u                               # w.r.t. surface 1 (z = 0)
    z_obj = -t[0]
    epd = 2 * (epl - z_obj) * np.tan(np.arcsin(NA / N[0]))
    y_obj = -np.tan(np.radians(FIELD * Hy)) * (epl - z_obj)
    u = (Py * epd / 2 - y_obj) / (epl - z_obj)
    y = y_obj
    ys, us = [y], [u]
    for k in range(1, len(r)):
        y = y + t[k - 1] * u
        if k < len(r) - 1:
            u = (N[k - 1] * u - y * (N[k] - N[k - 1]) / r[k]) / N[k]
        ys.append(y)
        us.append(u)
    return np.array(ys), np.array(us)


ok = True
results = {}
for s in (1.0, 10.0, 0.01):
    o = build(s)
    for Hy, Py in ((1.0, 0.0), (1.0, 0.5)):
        o.paraxial.trace(Hy, Py, WL)
        y_lib = o.surface_group.y.ravel().copy()
        u_lib = o.surface_group.u.ravel().copy()
        y_own, u_own = own_trace(s, Hy, Py)
        results[(s, Hy, Py)] = (y_lib, u_lib)
        print(f's={s:<5} Hy={Hy} Py={Py}')
        print('   library  y/s (obj, surf1, image):', y_lib[[0, 1, -1]] / s,
              ' u (obj, image):', u_lib[[0, -1]])
        print('   expected y/s (obj, surf1, image):', y_own[[0, 1, -1]] / s,
              ' u (obj, image):', u_own[[0, -1]])
        good = (np.allclose(y_lib[1:], y_own[1:], rtol=1e-9, atol=1e-12 * s)
                and np.allclose(u_lib, u_own, rtol=1e-9, atol=1e-14))
        ok &= good
    yc, uc = o.paraxial.chief_ray()
    o.trace_generic(0.0, 1.0, 0.0, 0.0, WL)
    print('   API 2nd path: chief_ray() image y/s =', yc.ravel()[-1] / s,
          ' real chief ray image y/s =', o.surface_group.y[-1, 0] / s)

y1, u1 = results[(1.0, 1.0, 0.0)]
y10, u10 = results[(10.0, 1.0, 0.0)]
print('scaling check (chief ray): y(s=10)/y(s=1) =', y10[[1, -1]] / y1[[1, -1]],
      '(expected 10), u(s=10)/u(s=1) =', u10[[0, -1]] / u1[[0, -1]],
      '(expected 1)')
scale_ok = (np.allclose(y10[1:], 10 * y1[1:], rtol=1e-9)
            and np.allclose(u10, u1, rtol=1e-9))
assert scale_ok, 'paraxial ray heights do not scale with the prescription'
assert ok, 'paraxial.trace disagrees with an independent y-nu trace'
sys.exit(0)

"""C07 / dummy-surface clause.

A lens whose entrance pupil lies more than one pupil diameter in FRONT of the
first surface (aperture stop behind a positive group, beyond its focus - e.g. a
relay) cannot be traced from an infinite object: RayGenerator launches the rays
BACKWARDS (N < 0) and every surface returns NaN.  Inserting a dummy plane
(air/air) far enough in front of the lens - a pure re-description - makes the
very same physical rays trace correctly.  So "inserting a dummy surface between
equal media changes nothing downstream" is violated.

Independent reference: an own exact meridional ray trace (sphere intersection +
vector Snell) of the ray defined by (field angle, point in the entrance pupil),
with the entrance pupil located by an own paraxial y-nu trace.
"""
import sys
import warnings
import numpy as np
from optiland.optic import Optic
from optiland.materials import IdealMaterial

warnings.simplefilter('ignore')

N_GLASS = 1.5
# (radius, thickness to next, index after)   -- object at infinity in air
PRESCRIPTION = [
    (100.0, 4.0, N_GLASS),     # L1 front
    (-100.0, 150.0, 1.0),      # L1 back, then 150 mm of air to the stop
    (np.inf, 50.0, 1.0),       # aperture stop (plane)
    (50.0, 4.0, N_GLASS),      # L2 front
    (-50.0, 75.0, 1.0),        # L2 back, then air to the image plane
]
STOP = 2          # position in PRESCRIPTION
EPD = 4.0
FIELD_DEG = 2.0
HY, PY = 1.0, 0.5
WL = 0.55


def build(dummy_distance=None):
    o = Optic()
    i = 0
    o.add_surface(index=i, radius=np.inf, thickness=np.inf)
    i += 1
    if dummy_distance is not None:     # plane, air on both sides
        o.add_surface(index=i, radius=np.inf, thickness=dummy_distance)
        i += 1
    for k, (R, t, n) in enumerate(PRESCRIPTION):
        mat = 'air' if n == 1.0 else IdealMaterial(n)
        o.add_surface(index=i, radius=R, thickness=t, material=mat,
                      is_stop=(k == STOP))
        i += 1
    o.add_surface(index=i)
    o.set_aperture('EPD', EPD)
    o.set_field_type('angle')
    o.add_field(0.0)
    o.add_field(FIELD_DEG)
    o.add_wavelength(WL, is_primary=True)
    return o


# ---------------------------------------------------------------- own model
def own_entrance_pupil():
    """Image of the stop centre through the surfaces in front of it (y-nu
    trace in reversed coordinates).  Returns z of the pupil w.r.t. surface 1"""
    y, u = 0.0, 0.1
    front = PRESCRIPTION[:STOP]
    n_here = front[-1][2]                      # medium in front of the stop
    for k in range(len(front) - 1, -1, -1):
        R, t, n_after = front[k]
        y = y + t * u                          # walk back to surface k
        n_before = PRESCRIPTION[k - 1][2] if k > 0 else 1.0
        c = -1.0 / R                           # curvature in reversed coords
        u = (n_here * u - y * c * (n_before - n_here)) / n_before
        n_here = n_before
    return y / u


def own_trace(epl):
    """Exact meridional trace; returns (y, M, N) on the image plane."""
    th = np.radians(FIELD_DEG * HY)
    M, N = np.sin(th), np.cos(th)
    y, z = PY * EPD / 2, epl                   # point in the entrance pupil
    n1 = 1.0
    zv = 0.0
    for R, t, n2 in PRESCRIPTION:
        if np.isinf(R):
            s = (zv - z) / N
            ny_, nz_ = 0.0, 1.0
        else:
            zc = zv + R
            b = M * y + N * (z - zc)
            c = y * y + (z - zc) ** 2 - R * R
            roots = [-b - np.sqrt(b * b - c), -b + np.sqrt(b * b - c)]
            s = min(roots, key=lambda q: abs(z + q * N - zv))
            ny_, nz_ = (y + s * M) / R, (z + s * N - zc) / R
        y, z = y + s * M, z + s * N
        if ny_ * M + nz_ * N < 0:
            ny_, nz_ = -ny_, -nz_
        mu = n1 / n2
        cosi = ny_ * M + nz_ * N
        root = np.sqrt(1 - mu * mu * (1 - cosi * cosi))
        M, N = mu * M + (root - mu * cosi) * ny_, mu * N + (root - mu * cosi) * nz_
        n1 = n2
        zv += t
    s = (zv - z) / N
    return y + s * M, M, N


epl = own_entrance_pupil()
y_ref, M_ref, N_ref = own_trace(epl)
print(f'own model : entrance pupil at z = {epl:.6f} mm (EPD = {EPD} mm), '
      f'image y = {y_ref:.9f}, M = {M_ref:.9f}, N = {N_ref:.9f}')

plain = build()
print(f'library   : EPL = {plain.paraxial.EPL():.6f}')
r = plain.trace_generic(0.0, HY, 0.0, PY, WL)
launch_N = plain.surface_group.surfaces[0].N[0]
print(f'library, original lens      : launch N = {launch_N:+.6f}, '
      f'image y = {r.y[0]}, M = {r.M[0]}, N = {r.N[0]}')

dummy = build(dummy_distance=400.0)
r2 = dummy.trace_generic(0.0, HY, 0.0, PY, WL)
print(f'library, dummy 400 mm ahead : launch N = '
      f'{dummy.surface_group.surfaces[0].N[0]:+.6f}, '
      f'image y = {r2.y[0]:.9f}, M = {r2.M[0]:.9f}, N = {r2.N[0]:.9f}')

ok_dummy = np.allclose([r2.y[0], r2.M[0], r2.N[0]], [y_ref, M_ref, N_ref],
                       rtol=0, atol=1e-9)
ok_plain = np.allclose([r.y[0], r.M[0], r.N[0]], [y_ref, M_ref, N_ref],
                       rtol=0, atol=1e-9)
print('dummy-surface description agrees with own trace :', ok_dummy)
print('original description agrees with own trace      :', ok_plain)
print('expected: both descriptions give image y = %.9f; observed original: %s'
      % (y_ref, r.y[0]))
assert ok_dummy, 'reference model and library disagree even with the dummy'
assert ok_plain, ('inserting a dummy surface between equal media changed the '
                  'result: original lens gives NaN / backward-launched rays')
sys.exit(0)

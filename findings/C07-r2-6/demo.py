"""C07 / 6 - CoordinateSystem.get_rotation_matrix / get_effective_transform use
another rotation order than localize / globalize, so the same frame has two
different poses inside the library as soon as two tilt angles are non-zero.

The ray trace defines a tilted frame through CoordinateSystem.localize:
    p_local = Rz(-rz) Ry(-ry) Rx(-rx) (p_global - origin)
hence  p_global = origin + Rx(rx) Ry(ry) Rz(rz) p_local.
A surface placed at (0, 0, 10) of a parent frame tilted by
(rx, ry, rz) = (0.2, -0.3, 0.4) and the same surface described directly in
global coordinates (flattened description) must have the same pose.
"""
import sys
import numpy as np
from optiland.coordinate_system import CoordinateSystem
from optiland.rays import RealRays

rx, ry, rz = 0.2, -0.3, 0.4
origin = np.array([1.0, 2.0, 3.0])


def Rx(a):
    return np.array([[1, 0, 0], [0, np.cos(a), -np.sin(a)],
                     [0, np.sin(a), np.cos(a)]])


def Ry(a):
    return np.array([[np.cos(a), 0, np.sin(a)], [0, 1, 0],
                     [-np.sin(a), 0, np.cos(a)]])


def Rz(a):
    return np.array([[np.cos(a), -np.sin(a), 0], [np.sin(a), np.cos(a), 0],
                     [0, 0, 1]])


R_ref = Rx(rx) @ Ry(ry) @ Rz(rz)           # own formula, see docstring
child_local = np.array([0.0, 0.0, 10.0])
pos_ref = origin + R_ref @ child_local

parent = CoordinateSystem(*origin, rx, ry, rz)
child = CoordinateSystem(*child_local, reference_cs=parent)

# what the ray trace does with a point and a direction of the child frame
pt = RealRays(0.0, 0.0, 0.0, 0.0, 0.0, 1.0, 1.0, 1.0)
child.globalize(pt)
pos_trace = np.array([pt.x[0], pt.y[0], pt.z[0]])
axis_trace = np.array([pt.L[0], pt.M[0], pt.N[0]])

pos_eff, R_eff = child.get_effective_transform()
np.set_printoptions(precision=6, suppress=True)
print('vertex of the child surface in global coordinates')
print('   own formula                 :', pos_ref)
print('   ray trace (globalize)       :', pos_trace)
print('   get_effective_transform     :', pos_eff)
print('local z axis (surface normal at the vertex) in global coordinates')
print('   own formula                 :', R_ref[:, 2])
print('   ray trace (globalize)       :', axis_trace)
print('   get_effective_transform     :', R_eff[:, 2])
print('get_rotation_matrix of the parent vs own Rx Ry Rz: max diff %.4f'
      % np.abs(parent.get_rotation_matrix() - R_ref).max())

ok_trace = (np.abs(pos_trace - pos_ref).max() < 1e-12
            and np.abs(axis_trace - R_ref[:, 2]).max() < 1e-12)
ok_eff = (np.abs(pos_eff - pos_ref).max() < 1e-12
          and np.abs(R_eff - R_ref).max() < 1e-12)
print('ray trace consistent with the reference:', ok_trace)
print('effective transform consistent         :', ok_eff)
if not ok_eff:
    print('VIOLATION: the two descriptions of the frame differ by %.4f mm in '
          'position and %.2f deg in the direction of the surface axis'
          % (np.linalg.norm(pos_eff - pos_ref),
             np.degrees(np.arccos(np.clip(R_eff[:, 2] @ R_ref[:, 2], -1, 1)))))
sys.exit(0 if (ok_trace and ok_eff) else 1)

"""C10 / 3 - Zernike decomposition of the wavefront of a FINITE object described
by field angles carries a huge spurious tilt: the plane-wave tilt correction
of an object at infinity is applied to a spherical wave from a finite object.

Independent reference: exact ray trace from the object point through two
spherical surfaces written here (no optiland code); OPD on the reference sphere
centred on the chief-ray image point through the axial point of the paraxial
exit pupil (own calculation).  As a second, library-independent-of-field-type
control the very same object point is also described with
field_type='object_height'.
"""
import sys
import numpy as np
from optiland.optic import Optic
from optiland.materials import IdealMaterial
from optiland.wavefront import ZernikeOPD

N_GLASS, R1, R2, T_LENS, T_IMG = 1.5168, 50.0, -50.0, 5.0, 95.0
EPD, FIELD_DEG, WL, Z_OBJ = 10.0, 5.0, 0.55, -100.0


def ref_opd(y_obj, px, py):
    surfaces = [(R1, 0.0, N_GLASS), (R2, T_LENS, 1.0)]   # R, z vertex, n after
    z_img = T_LENS + T_IMG
    # stop = first surface -> entrance pupil at z = 0; exit pupil = image of
    # the first vertex through surface 2
    s_img = 1.0 / (N_GLASS / (-T_LENS) + (1.0 - N_GLASS) / R2)
    z_xp = T_LENS + s_img
    px = np.concatenate([[0.0], px])
    py = np.concatenate([[0.0], py])
    E = np.column_stack([px * EPD / 2, py * EPD / 2, np.zeros_like(px)])
    O = np.array([0.0, y_obj, Z_OBJ])
    d = E - O
    d /= np.linalg.norm(d, axis=1)[:, None]
    P = np.tile(O, (len(E), 1))
    n = 1.0
    opl = np.zeros(len(P))
    for R, zv, n2 in surfaces:
        C = np.array([0.0, 0.0, zv + R])
        oc = P - C
        b = np.sum(oc * d, axis=1)
        c = np.sum(oc * oc, axis=1) - R**2
        sq = np.sqrt(b * b - c)
        t = -b - sq if R > 0 else -b + sq
        Q = P + t[:, None] * d
        opl += n * t
        nrm = (Q - C) / R
        cosi = np.sum(d * nrm, axis=1)
        nrm = nrm * np.sign(cosi)[:, None]
        cosi = np.abs(cosi)
        mu = n / n2
        cost = np.sqrt(1 - mu**2 * (1 - cosi**2))
        d = mu * d + (cost - mu * cosi)[:, None] * nrm
        P, n = Q, n2
    t = (z_img - P[:, 2]) / d[:, 2]
    Q = P + t[:, None] * d
    opl += n * t
    C = Q[0]
    Rs = np.linalg.norm(C - np.array([0.0, 0.0, z_xp]))
    delta = Q - C
    b = np.sum(-d * delta, axis=1)
    c = np.sum(delta * delta, axis=1) - Rs**2
    tb = -b + np.sqrt(b * b - c)
    total = opl - n * tb
    return (total[0] - total[1:]) / (WL * 1e-3)


def make_lens(field_type, field_value):
    o = Optic()
    o.add_surface(index=0, radius=np.inf, thickness=-Z_OBJ)
    o.add_surface(index=1, radius=R1, thickness=T_LENS,
                  material=IdealMaterial(N_GLASS), is_stop=True)
    o.add_surface(index=2, radius=R2, thickness=T_IMG)
    o.add_surface(index=3)
    o.set_aperture('EPD', EPD)
    o.set_field_type(field_type)
    o.add_field(y=0)
    o.add_field(y=field_value)
    o.add_wavelength(WL, is_primary=True)
    return o


h = np.tan(np.radians(FIELD_DEG)) * (0.0 - Z_OBJ)   # object height of 5 deg


def check(label, optic):
    z = ZernikeOPD(optic, (0, 1), WL, num_rings=6, zernike_type='fringe',
                   num_terms=37)
    model = z.zernike.poly(z.radius, z.phi)
    best = min((np.max(np.abs(model - ref_opd(s * h, z.x, z.y))),
                np.ptp(ref_opd(s * h, z.x, z.y))) for s in (1.0, -1.0))
    print(f'{label}: Fringe Z3={z.coeffs[2]:+.4f} Z8={z.coeffs[7]:+.4f} '
          f'PV(decomposition)={np.ptp(model):.3f} waves, '
          f'PV(reference OPD)={best[1]:.3f} waves, '
          f'max|decomposition - reference|={best[0]:.3e} waves')
    return best[0]


tol = 0.05
e_h = check('object_height field, y = %.4f mm' % h,
            make_lens('object_height', h))
e_a = check('angle field, 5 deg (same object point)',
            make_lens('angle', FIELD_DEG))
ok = True
if e_h > tol:
    print('FAIL (control): object-height description deviates', e_h)
    ok = False
if e_a > tol:
    print(f'FAIL: angle description of the finite object: decomposition '
          f'deviates from the sampled OPD by {e_a:.1f} waves '
          f'(expected < {tol})')
    ok = False
print('PASS' if ok else 'VIOLATED')
sys.exit(0 if ok else 1)

"""C17 demo 3: an uncoated system loses / gains intensity and the field stops
being transverse whenever a surface does not bend the ray (index-matched curved
surface, curved image surface) - e.g. the shipped HubbleTelescope sample.

Independent check: with no coatings every surface matrix must be a pure
rotation, so I_out = |P E_in|^2 = 1 for every unit transverse E_in, and
P E_in must be orthogonal to the outgoing ray.
"""
import sys
import numpy as np
from optiland.optic import Optic
from optiland.materials import IdealMaterial
from optiland.samples.telescopes import HubbleTelescope
from optiland.rays import create_polarization


def petzval_singlet(image_radius):
    o = Optic()
    o.add_surface(index=0, thickness=np.inf)
    o.add_surface(index=1, thickness=5, radius=40,
                  material=IdealMaterial(n=1.5168), is_stop=True)
    o.add_surface(index=2, thickness=37, radius=-40)
    o.add_surface(index=3, radius=image_radius)      # image surface
    o.set_aperture('EPD', 10.0)
    o.set_field_type('angle')
    o.add_field(y=0)
    o.add_field(y=20)
    o.add_wavelength(0.55, is_primary=True)
    return o


def matched_doublet(radius):
    """singlet + index-matched (n=1.5 | n=1.5) internal curved interface"""
    o = Optic()
    o.add_surface(index=0, thickness=np.inf)
    o.add_surface(index=1, thickness=3, radius=40,
                  material=IdealMaterial(n=1.5), is_stop=True)
    o.add_surface(index=2, thickness=3, radius=radius,
                  material=IdealMaterial(n=1.5))
    o.add_surface(index=3, thickness=37, radius=-40)
    o.add_surface(index=4)
    o.set_aperture('EPD', 10.0)
    o.set_field_type('angle')
    o.add_field(y=0)
    o.add_field(y=20)
    o.add_wavelength(0.55, is_primary=True)
    return o


cases = [('singlet, flat image (control)', petzval_singlet(np.inf), 0.55),
         ('singlet, curved image R=-60', petzval_singlet(-60.0), 0.55),
         ('index-matched interface, flat (control)', matched_doublet(np.inf), 0.55),
         ('index-matched interface, R=30', matched_doublet(30.0), 0.55),
         ('HubbleTelescope sample (curved image)', HubbleTelescope(), 0.55)]

failures = []
for label, optic, wl in cases:
    worst_i = worst_k = 0.0
    nbad = ntot = 0
    for name in ('H', 'V', 'L+45', 'L-45', 'RCP', 'LCP', 'unpolarized'):
        state = create_polarization(name)
        optic.set_polarization(state)
        np.random.seed(0)
        rays = optic.trace(0.3, 0.7, wl, num_rays=100, distribution='random')
        ok = np.isfinite(rays.i)
        dev = np.abs(rays.i[ok] - 1.0)
        worst_i = max(worst_i, dev.max())
        nbad += int((dev > 1e-9).sum())
        ntot += int(ok.sum())
        # orthogonality of the accumulated matrix and transversality
        pmat = rays.p[ok]
        k_out = np.array([rays.L, rays.M, rays.N]).T[ok]
        ortho = np.abs(np.einsum('nji,njk->nik', pmat, pmat) - np.eye(3)).max()
        worst_k = max(worst_k, ortho)
    print(f'{label:45s}: max|I-1| = {worst_i:.3e}, rays off by >1e-9: '
          f'{nbad}/{ntot}, max|P^T P - 1| = {worst_k:.3e}   (expected 0)')
    if 'control' in label:
        assert worst_i < 1e-9, 'control should be clean'
    elif worst_i > 1e-9:
        failures.append(f'{label}: max|I-1|={worst_i:.3e}')

if failures:
    print('FAIL: uncoated systems do not preserve intensity:')
    for f in failures:
        print('  ', f)
    sys.exit(1)
print('OK')

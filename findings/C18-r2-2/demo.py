"""C18 / 2 - Material(name, vendor, robust_search=False) raises "Multiple matches"
for a name that is carried by exactly one catalogue entry of that vendor.

The expectation is taken from the catalogue file itself (read with the csv module,
not through the library): a (name, vendor) pair that identifies exactly one row
is not ambiguous and must be returned.
"""
import csv
import io
import os
import sys
import contextlib
import optiland
from optiland.materials import Material

root = os.path.join(os.path.dirname(os.path.abspath(optiland.__file__)), '..',
                    'database', 'catalog_nk.csv')
with open(root, encoding='utf-8', newline='') as f:
    rows = [r for r in csv.DictReader(f) if r['group'] == 'glass']


def vendor(r):
    return r['filename'].split('/')[1]


count = {}
for r in rows:
    key = (r['name'], vendor(r))
    count[key] = count.get(key, 0) + 1

# a handful of everyday glasses first, then the whole glass shelf
SHOW = [('N-BK7HT', 'schott'), ('N-BAK4', 'schott'), ('N-SK2', 'schott'),
        ('K7', 'schott'), ('N-BAK1', 'schott')]
for name, ven in SHOW:
    assert count[(name, ven)] == 1
    try:
        with contextlib.redirect_stdout(io.StringIO()):
            m = Material(name, ven, robust_search=False)
        print(f"Material({name!r}, {ven!r}, robust_search=False) -> "
              f"{m.material_data['name']!r}")
    except ValueError as e:
        print(f"Material({name!r}, {ven!r}, robust_search=False) raised: {e}"
              f"   (catalogue has exactly 1 entry named {name!r} from {ven})")

unique = failed = 0
for r in rows:
    key = (r['name'], vendor(r))
    if count[key] != 1:
        continue
    unique += 1
    try:
        with contextlib.redirect_stdout(io.StringIO()):
            m = Material(key[0], key[1], robust_search=False)
        if m.material_data['name'] != key[0]:
            failed += 1
    except ValueError:
        failed += 1

print(f"unambiguous (name, vendor) pairs in the glass shelf: {unique}; "
      f"strict look-up failed for {failed} (expected 0)")
if failed:
    print("FAIL")
    sys.exit(1)
print("OK")
sys.exit(0)

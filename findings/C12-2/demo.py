"""C12 / defect 2: Distortion and GridDistortion treat every field as an ANGLE
in degrees.  For field_type='object_height' the paraxial reference height is
computed as  const*tan(radians(H*max_height))  instead of  m*H*max_height, and
GridDistortion additionally mirrors the predicted x-coordinates (a sign fix-up
that is only valid for angle fields).

Run:  PYTHONPATH=/tmp/hunt/C12 /venv/bin/python demo.py
"""
import sys
import numpy as np
from optiland.optic import Optic
from optiland.analysis import Distortion, GridDistortion
from optiland.samples.lithography import UVProjectionLens

failures = []


def check(name, ok, observed, expected):
    print(f'[{"ok" if ok else "FAIL"}] {name}\n       observed: {observed}\n'
          f'       expected: {expected}')
    if not ok:
        failures.append(name)


def finite_singlet():
    lens = Optic()
    lens.add_surface(index=0, radius=np.inf, thickness=100)
    lens.add_surface(index=1, radius=np.inf, thickness=5, is_stop=True)
    lens.add_surface(index=2, radius=40, thickness=6, material='N-BK7')
    lens.add_surface(index=3, radius=-40, thickness=65)
    lens.add_surface(index=4)
    lens.set_aperture('EPD', 5.0)
    lens.set_field_type('object_height')
    lens.add_field(0)
    lens.add_field(7)
    lens.add_field(10)
    lens.add_wavelength(0.55, is_primary=True)
    return lens


def paraxial_chief_image_height(lens, h, wl):
    """own y-nu trace of the chief ray (object height h, through the centre
    of the stop, which is surface 1 here) up to the actual image surface."""
    z = lens.surface_group.positions.flatten()
    R = lens.surface_group.radii
    n = lens.n(wl)                       # index after each surface
    y = h
    u = (0.0 - h) / (z[1] - z[0])        # aimed at the stop centre
    for k in range(1, len(z)):
        y = y + u * (z[k] - z[k - 1])
        if k == len(z) - 1:
            break
        power = 0.0 if np.isinf(R[k]) else (n[k] - n[k - 1]) / R[k]
        u = (n[k - 1] * u - y * power) / n[k]
    return y


# ------------------------------------------------------------------ Distortion
lens = finite_singlet()
wl = 0.55
npts = 5
H = np.linspace(1e-10, 1, npts)          # documented field samples
h = H * lens.fields.max_field
lens.trace_generic(0.0, H, 0.0, 0.0, wl)
y_real = lens.surface_group.y[-1, :].copy()
y_parax = np.array([paraxial_chief_image_height(lens, hh, wl) for hh in h])
expected = 100 * (y_real - y_parax) / y_parax

for dtype in ['f-tan']:
    got = Distortion(lens, num_points=npts, distortion_type=dtype).data[0]
    check(f'Distortion({dtype}) of a finite-conjugate singlet, object heights '
          f'{h.round(2)} mm',
          np.allclose(got[1:], expected[1:], rtol=1e-4, atol=1e-6),
          got, expected)

# shipped sample: 4x lithographic reduction lens, object heights up to 48 mm
uv = UVProjectionLens()
wl = uv.primary_wavelength
H = np.linspace(1e-10, 1, npts)
uv.trace_generic(0.0, H, 0.0, 0.0, wl)
y_real = uv.surface_group.y[-1, :].copy()
y_parax = uv.paraxial.magnification() * H * uv.fields.max_field
expected = 100 * (y_real - y_parax) / y_parax
got = Distortion(uv, num_points=npts).data[0]
check('Distortion(f-tan) of samples.lithography.UVProjectionLens',
      np.allclose(got[1:], expected[1:], rtol=1e-3, atol=1e-6), got, expected)

# -------------------------------------------------------------- GridDistortion
lens = finite_singlet()
wl = 0.55
n = 4
g = GridDistortion(lens, num_points=n)
ext = np.linspace(-np.sqrt(2) / 2, np.sqrt(2) / 2, n)
Hx, Hy = np.meshgrid(ext, ext)
m = paraxial_chief_image_height(lens, 1.0, wl)       # image mm per object mm
xp = m * Hx * lens.fields.max_field
yp = m * Hy * lens.fields.max_field
lens.trace_generic(Hx.flatten(), Hy.flatten(), 0.0, 0.0, wl)
xr = lens.surface_group.x[-1, :].reshape(n, n)
yr = lens.surface_group.y[-1, :].reshape(n, n)
exp_max = np.max(100 * np.hypot(xr - xp, yr - yp) / np.hypot(xp, yp))
check('GridDistortion predicted x grid (row 0)',
      np.allclose(g.data['xp'][0], xp[0], rtol=1e-3), g.data['xp'][0], xp[0])
check('GridDistortion predicted y grid (column 0)',
      np.allclose(g.data['yp'][:, 0], yp[:, 0], rtol=1e-3),
      g.data['yp'][:, 0], yp[:, 0])
check('GridDistortion max_distortion (%)',
      np.isclose(g.data['max_distortion'], exp_max, rtol=1e-3),
      g.data['max_distortion'], exp_max)

if failures:
    print(f'\n{len(failures)} check(s) failed')
    sys.exit(1)
print('all checks passed')

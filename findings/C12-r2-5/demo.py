"""C12 / 5 - explicit field / wavelength lists given as numpy arrays raise ValueError in every analysis.

`if self.fields == 'all'` / `if wavelengths == 'all'` is evaluated on the caller's sequence; for a
numpy array with more than one element the comparison is element-wise and `if` raises
"The truth value of an array with more than one element is ambiguous".

Lens: biconvex singlet R=+-50, t=5, n=1.5, stop on surface 1, EPD 10, fields 0 / 3 deg.
The expected RMS spot radius (explicit field (0, 1), explicit wavelengths) comes from an independent
numpy trace (the glass is non dispersive, so it is the same for every wavelength).
"""
import sys
import numpy as np
from optiland import optic
from optiland.materials import IdealMaterial
from optiland.analysis import (SpotDiagram, EncircledEnergy, RayFan, Distortion,
                               FieldCurvature, PupilAberration, RmsSpotSizeVsField)

R1, R2, T, NG, D_IMG, EPD, FIELD = 50.0, -50.0, 5.0, 1.5, 48.0, 10.0, 3.0


def hexapolar(num_rings):
    x, y = [0.0], [0.0]
    for i in range(1, num_rings + 1):
        th = np.linspace(0, 2 * np.pi, 6 * i + 1)[:-1]
        x += list(i / num_rings * np.cos(th))
        y += list(i / num_rings * np.sin(th))
    return np.array(x), np.array(y)


def reference_rms(field_deg):
    px, py = hexapolar(6)
    th = np.radians(field_deg)
    d = np.array([0 * px, np.sin(th) + 0 * px, np.cos(th) + 0 * px])
    p = np.array([px * EPD / 2, py * EPD / 2, 0 * px]) - 20.0 * d
    n = 1.0
    for zv, R, n2 in ((0.0, R1, NG), (T, R2, 1.0)):
        c = 1.0 / R
        o = p - np.array([[0.0], [0.0], [zv]])
        b = 2 * c * np.sum(o * d, axis=0) - 2 * d[2]
        cc = c * np.sum(o * o, axis=0) - 2 * o[2]
        p = p + 2 * cc / (-b + np.sqrt(b * b - 4 * c * cc)) * d
        nrm = (p - np.array([[0.0], [0.0], [zv + R]])) / abs(R)
        cosi = np.sum(nrm * d, axis=0)
        nrm, cosi = nrm * np.sign(cosi), np.abs(cosi)
        mu = n / n2
        d = mu * d + (np.sqrt(1 - mu**2 * (1 - cosi**2)) - mu * cosi) * nrm
        n = n2
    p = p + (T + D_IMG - p[2]) / d[2] * d
    r2 = (p[0] - p[0].mean())**2 + (p[1] - p[1].mean())**2
    return np.sqrt(r2.mean())


lens = optic.Optic()
lens.add_surface(index=0, radius=np.inf, thickness=np.inf)
lens.add_surface(index=1, radius=R1, thickness=T, material=IdealMaterial(NG), is_stop=True)
lens.add_surface(index=2, radius=R2, thickness=D_IMG)
lens.add_surface(index=3)
lens.set_aperture('EPD', EPD)
lens.set_field_type('angle')
lens.add_field(y=0)
lens.add_field(y=FIELD)
lens.add_wavelength(0.48)
lens.add_wavelength(0.55, is_primary=True)
lens.add_wavelength(0.65)

fields = np.array([[0.0, 0.0], [0.0, 1.0]])          # the lens's own fields, as an array
waves = np.array([0.48, 0.55, 0.65])                 # the lens's own wavelengths, as an array
expected = [reference_rms(0.0), reference_rms(FIELD)]

calls = {
    'SpotDiagram(fields=array)': lambda: SpotDiagram(lens, fields=fields).rms_spot_radius(),
    'SpotDiagram(wavelengths=array)': lambda: SpotDiagram(lens, wavelengths=waves).rms_spot_radius(),
    'EncircledEnergy(fields=array)': lambda: EncircledEnergy(lens, fields=fields, num_rays=50),
    'RayFan(fields=array)': lambda: RayFan(lens, fields=fields, num_points=5),
    'RayFan(wavelengths=array)': lambda: RayFan(lens, wavelengths=waves, num_points=5),
    'Distortion(wavelengths=array)': lambda: Distortion(lens, wavelengths=waves, num_points=5),
    'FieldCurvature(wavelengths=array)': lambda: FieldCurvature(lens, wavelengths=waves, num_points=5),
    'PupilAberration(wavelengths=array)': lambda: PupilAberration(lens, wavelengths=waves, num_points=5),
    'RmsSpotSizeVsField(wavelengths=array)': lambda: RmsSpotSizeVsField(lens, num_fields=2, wavelengths=waves),
}
bad = False
results = {}
for name, call in calls.items():
    try:
        results[name] = call()
        print(f'{name:40s} ok')
    except ValueError as e:
        bad = True
        print(f'{name:40s} ValueError: {e}')

# the same calls with plain lists work and give the reference numbers
rms_list = SpotDiagram(lens, fields=fields.tolist(), wavelengths=waves.tolist()).rms_spot_radius()
print('with lists   : RMS radius', [float(r[1]) for r in rms_list], ' expected', expected)
assert np.allclose([r[1] for r in rms_list], expected, rtol=1e-9)
for key in ('SpotDiagram(fields=array)', 'SpotDiagram(wavelengths=array)'):
    if key in results:
        got = [float(r[1]) for r in results[key]]
        print(f'with arrays  : {key} RMS radius', got, ' expected', expected)
        if not np.allclose(got, expected, rtol=1e-9):
            bad = True
    else:
        print(f'with arrays  : {key} -> no result (exception), expected RMS radius', expected)

if bad:
    print('VIOLATION: numpy-array field / wavelength lists are rejected')
    sys.exit(1)
print('OK')
sys.exit(0)

"""C03 defect 3: in telecentric object space the marginal ray does not carry
the stated object-space numerical aperture when the object medium is not air
(immersion): the generator uses sin(U) = NA instead of sin(U) = NA / n_object.

Run:  PYTHONPATH=/tmp/hunt/C03 /venv/bin/python demo.py
"""
import sys
import warnings
import numpy as np
from optiland.optic import Optic
from optiland.materials import IdealMaterial

warnings.filterwarnings('ignore')
NA = 0.2
WL = 0.55


def build(n_obj, telecentric):
    o = Optic()
    o.add_surface(index=0, thickness=20.0, material=IdealMaterial(n=n_obj))
    o.add_surface(index=1, radius=30.0, thickness=5.0,
                  material=IdealMaterial(n=1.6))
    o.add_surface(index=2, radius=-30.0, thickness=20.0)
    o.add_surface(index=3, is_stop=True, thickness=50.0)
    o.add_surface(index=4)
    o.set_aperture('objectNA', NA)
    o.set_field_type('object_height')
    o.add_field(y=0.0)
    o.add_field(y=2.0)
    o.add_wavelength(WL, is_primary=True)
    o.obj_space_telecentric = telecentric
    return o


def delivered_na(o, Hy):
    """n_object * sin(angle between marginal ray (Py=1) and chief ray (Py=0))
    computed from the object-surface record of two traces."""
    sg = o.surface_group
    n0 = o.object_surface.material_post.n(WL)
    o.trace_generic(0.0, Hy, 0.0, 0.0, WL)
    c = np.array([sg.L[0, 0], sg.M[0, 0], sg.N[0, 0]])
    o.trace_generic(0.0, Hy, 0.0, 1.0, WL)
    m = np.array([sg.L[0, 0], sg.M[0, 0], sg.N[0, 0]])
    return n0 * np.linalg.norm(np.cross(c, m)), c


fail = 0
for n_obj in (1.0, 1.33, 1.5):
    for tele in (False, True):
        o = build(n_obj, tele)
        na, chief = delivered_na(o, 0.0)
        ok = abs(na - NA) < 1e-9
        fail += not ok
        print(f"[{'ok  ' if ok else 'FAIL'}] n_object={n_obj:<4} "
              f"telecentric={tele!s:<5}: n*sin(U) of the axial marginal ray "
              f'= {na:.6f}   stated NA = {NA}')
        if tele:
            _, chief = delivered_na(o, 1.0)
            assert abs(chief[1]) < 1e-12, 'chief ray not parallel to axis'

if fail:
    print(f'\n{fail} configuration(s) deliver the wrong numerical aperture '
          '-> defect demonstrated')
    sys.exit(1)
print('\nall checks passed')

"""C19 / 4 - the thickness after the last surface is not saved: continuing a
lens after reloading it puts the next surface in the wrong place.

A lens under construction (object, front and back surface of a singlet, the
image surface not added yet) is saved and reloaded.  The image surface is then
added to the original and to the reloaded lens with the same call.
"""
import sys
import os
import tempfile
import warnings
import numpy as np
from optiland.optic import Optic
from optiland.materials import IdealMaterial
from optiland.fileio.optiland_handler import (save_optiland_file,
                                               load_optiland_file)

warnings.filterwarnings('ignore')
R1, R2, T1, T2, N, H = 50.0, -50.0, 5.0, 45.0, 1.5, 5.0

lens = Optic()
lens.add_surface(index=0, thickness=np.inf)
lens.add_surface(index=1, radius=R1, thickness=T1, material=IdealMaterial(N),
                 is_stop=True)
lens.add_surface(index=2, radius=R2, thickness=T2)      # 45 mm to the image
lens.set_aperture('EPD', 2 * H)
lens.set_field_type('angle')
lens.add_field(0)
lens.add_wavelength(0.55, is_primary=True)

fn = os.path.join(tempfile.mkdtemp(), 'unfinished.json')
save_optiland_file(lens, fn)
loaded = load_optiland_file(fn)
same_dict = loaded.to_dict() == lens.to_dict()

# the same edit on both
lens.add_surface(index=3)
loaded.add_surface(index=3)

# independent y-nu trace of the marginal ray to the plane z = T1 + T2
y, u = H, 0.0
u = (u - y * (N - 1) / R1) / N          # refraction at surface 1
y = y + T1 * u
u = N * u - y * (1 - N) / R2            # refraction at surface 2 (into air)
y_img = y + T2 * u
z_expected = T1 + T2

bad = False
for label, o in (('original', lens), ('reloaded', loaded)):
    z = float(o.surface_group.positions[-1][0])
    ya, ua = o.paraxial.marginal_ray()
    print(f'{label}: image surface at z = {z:.4f} (expected {z_expected}), '
          f'paraxial marginal ray height there {float(ya[-1][0]):.6f} '
          f'(own y-nu trace {y_img:.6f})')
    if abs(z - z_expected) > 1e-12 or abs(float(ya[-1][0]) - y_img) > 1e-9:
        bad = True
print('dictionary of the reloaded lens equal to the original before the '
      'edit:', same_dict)
sys.exit(1 if bad else 0)

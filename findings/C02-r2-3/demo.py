"""C02 / 3 - Chebyshev surface: rays that hit exactly the edge of the
normalisation rectangle (|x| = norm_x or |y| = norm_y, e.g. the marginal rays
Py = +-1 of a ray fan when norm = semi-aperture) get a NaN surface normal and
a NaN outgoing direction, although the intersection is valid and a refracted
direction exists.

norm_x = norm_y = 1 is used so that the (already reported) missing 1/norm
factor of the Chebyshev normal plays no role.

Exits 1 when a ray with a finite intersection inside the closed domain and
sub-critical incidence has a non-finite outgoing direction.
"""
import sys
import warnings
import numpy as np
from numpy.polynomial import chebyshev as Ch

warnings.simplefilter('ignore')
from optiland import optic, materials

N2 = 1.5
c = np.zeros((3, 4))
c[2, 0] = 0.02
c[0, 2] = 0.03
c[1, 1] = 0.01
c[0, 3] = 0.005

lens = optic.Optic()
lens.add_surface(index=0, radius=np.inf, thickness=np.inf)
lens.add_surface(index=1, surface_type='chebyshev', radius=np.inf,
                 coefficients=c, norm_x=1.0, norm_y=1.0, thickness=1.0,
                 material=materials.IdealMaterial(n=N2), is_stop=True)
lens.add_surface(index=2, radius=np.inf, thickness=5.0)
lens.add_surface(index=3)
lens.set_aperture(aperture_type='EPD', value=2.0)     # semi-aperture = norm
lens.set_field_type(field_type='angle')
lens.add_field(y=0.0)
lens.add_wavelength(value=0.55, is_primary=True)

Px = np.array([0.0, 0.0, 0.0, 0.0, 0.0, 1.0, -1.0])
Py = np.array([-1.0, -0.5, 0.0, 0.5, 1.0, 0.0, 0.0])
lens.trace_generic(0.0, 0.0, Px, Py, 0.55)
s = lens.surface_group.surfaces[1]

# independent reference: sag and gradient from numpy's Chebyshev module,
# vector Snell law for an incoming direction (0, 0, 1)
x, y = s.x, s.y
zx = Ch.chebval2d(x, y, Ch.chebder(c, axis=0))
zy = Ch.chebval2d(x, y, Ch.chebder(c, axis=1))
nrm = np.stack([-zx, -zy, np.ones_like(zx)])
nrm /= np.linalg.norm(nrm, axis=0)
d_in = np.array([0.0, 0.0, 1.0])[:, None] * np.ones_like(x)
cosi = np.sum(d_in * nrm, axis=0)
mu = 1.0 / N2
cost = np.sqrt(1 - mu**2 * (1 - cosi**2))
d_exp = mu * d_in + (cost - mu * cosi) * nrm
d_lib = np.stack([s.L, s.M, s.N])

np.set_printoptions(precision=6, suppress=True, linewidth=150)
print('hit points (x, y):', np.c_[x, y].tolist())
print('on-surface residual z - sag:',
      s.z - Ch.chebval2d(x, y, c))
print('expected outgoing M:', d_exp[1])
print('library  outgoing M:', d_lib[1])
print('expected outgoing L:', d_exp[0])
print('library  outgoing L:', d_lib[0])
valid = np.isfinite(s.x) & np.isfinite(s.y) & np.isfinite(s.z) \
    & (np.abs(x) <= 1) & (np.abs(y) <= 1) & np.all(np.isfinite(d_exp), axis=0)
bad = valid & ~np.all(np.isfinite(d_lib), axis=0)
dev = np.linalg.norm(d_lib - d_exp, axis=0)
print('|library - expected|:', dev)
if bad.any():
    print('VIOLATION: %d of %d rays with a valid intersection have a '
          'non-finite outgoing direction (pupil points %s); interior rays '
          'agree with the reference to %.1e'
          % (bad.sum(), bad.size, np.c_[Px, Py][bad].tolist(),
             np.nanmax(dev)))
    sys.exit(1)
sys.exit(0)

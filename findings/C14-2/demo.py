"""C14 demo 2: polynomial / Chebyshev coefficient variables are not faithful
handles when the surface was built from an integer coefficient table
(e.g. coefficients=[[0, 0, 0], [0, 0, 0], [0, 0, 0]]): the value written is
truncated to an integer, so set-then-read returns 0, the surface does not move,
and a global optimiser returns a vector that the lens is NOT in.

Run:  PYTHONPATH=/tmp/hunt/C14 /venv/bin/python demo.py
"""
import warnings
import numpy as np
from optiland import optic, optimization
from optiland.optimization.variable import Variable

warnings.simplefilter('ignore')


def build(surface_type, zero=0):
    extra = dict(norm_x=10, norm_y=10) if surface_type == 'chebyshev' else {}
    lens = optic.Optic()
    lens.add_surface(index=0, thickness=np.inf)
    lens.add_surface(index=1, thickness=5, radius=50, material='SK16',
                     is_stop=True, surface_type=surface_type,
                     coefficients=[[zero] * 3, [zero] * 3, [zero] * 3], **extra)
    lens.add_surface(index=2, thickness=93, radius=-50)
    lens.add_surface(index=3)
    lens.set_aperture('EPD', 10)
    lens.set_field_type('angle')
    lens.add_field(0)
    lens.add_wavelength(0.55, is_primary=True)
    return lens


failures = []

# ---- control: with a float table (0.0) the same expectation holds ----------
for stype in ('polynomial', 'chebyshev'):
    lens = build(stype, zero=0.0)
    var = Variable(lens, stype + '_coeff', surface_number=1, coeff_index=(2, 0))
    var.update(1.5e-3)
    assert abs(float(var.value) - 1.5e-3) < 1e-15, 'control failed'
print('control (float table [[0.0, ...]]): set 1.5e-3 -> read 1.5e-3  OK')

# ---- (a) set / read and the surface shape itself --------------------------
for stype in ('polynomial', 'chebyshev'):
    lens = build(stype)
    geo = lens.surface_group.surfaces[1].geometry
    sag0 = float(geo.sag(3.0, 0.0))
    var = Variable(lens, stype + '_coeff', surface_number=1, coeff_index=(2, 0))
    var.update(1.5e-3)
    got = float(var.value)
    sag1 = float(geo.sag(3.0, 0.0))
    # independent expectation: the x^2 term (polynomial) / T2(x/10) term
    # (Chebyshev) must change the sag at x=3
    if stype == 'polynomial':
        expected_dsag = 1.5e-3 * 3.0 ** 2
    else:
        expected_dsag = 1.5e-3 * (2 * (3.0 / 10) ** 2 - 1)
    print(f'{stype}: set 1.5e-3, read back {got!r} (expected 0.0015); '
          f'sag change at x=3: {sag1 - sag0:.3e} (expected {expected_dsag:.3e})')
    if abs(got - 1.5e-3) > 1e-12:
        failures.append(f'{stype}_coeff: set 1.5e-3 but read {got}')
    if abs((sag1 - sag0) - expected_dsag) > 1e-9:
        failures.append(f'{stype}: sag did not follow the variable')

# ---- (b) an optimiser run: lens must be in the state of result.x ----------
lens = build('polynomial')
problem = optimization.OptimizationProblem()
problem.add_operand('rms_spot_size', target=0, weight=1, input_data=dict(
    optic=lens, surface_number=-1, Hx=0, Hy=0, num_rays=5, wavelength=0.55,
    distribution='hexapolar'))
problem.add_variable(lens, 'polynomial_coeff', surface_number=1,
                     coeff_index=(2, 0), min_val=-5e-3, max_val=5e-3)
problem.add_variable(lens, 'polynomial_coeff', surface_number=1,
                     coeff_index=(0, 2), min_val=-5e-3, max_val=5e-3)
np.random.seed(1)
opt = optimization.DifferentialEvolution(problem)
res = opt.optimize(maxiter=3, disp=False, workers=1)
vals = np.array([float(v.value) for v in problem.variables])
c = lens.surface_group.surfaces[1].geometry.c
print(f'DifferentialEvolution: result.x = {res.x}, variable values = {vals}, '
      f'c[2,0], c[0,2] on the lens = {c[2][0]}, {c[0][2]}')
print('    expected: variable values == result.x')
if np.max(np.abs(vals - res.x)) > 1e-12:
    failures.append(f'DE: lens is not at the returned solution: result.x={res.x} '
                    f'but variables read {vals}')

print()
for f in failures:
    print('VIOLATION:', f)
assert not failures, f'{len(failures)} violation(s) of C14'
print('no violation')

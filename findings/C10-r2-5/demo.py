"""C10 / 5 - One failed ray (NaN OPD sample) turns EVERY Zernike coefficient of
ZernikeOPD / ZernikeFit into NaN; the decomposition then reproduces none of
the validly sampled OPD.

Lens: a fast biconvex singlet whose outermost pupil zone suffers total internal
reflection at the rear surface, so the outer rings of the hexapolar sampling
have no OPD (NaN, intensity 0) while > 80 % of the samples are valid and
well spread.  Expected: a least-squares decomposition over the valid samples
(computed here with numpy and an own Fringe basis) that reproduces them up to
the truncation residual.
"""
import sys
import math
import warnings
import numpy as np
from optiland.optic import Optic
from optiland.materials import IdealMaterial
from optiland.wavefront import ZernikeOPD

warnings.filterwarnings('ignore')
NT = 37


def fringe_basis(x, y, nterms):
    """own Fringe basis; sine terms with the library's sign, sin(m*phi), m<0"""
    table = {}
    for n in range(0, 30):
        for m in range(-n, n + 1, 2):
            a = abs(m)
            j = (1 + (n + a) // 2)**2 - 2 * a + (1 if m < 0 else 0)
            table[j] = (n, m)
    r = np.hypot(x, y)
    p = np.arctan2(y, x)
    cols = []
    for j in range(1, nterms + 1):
        n, m = table[j]
        a = abs(m)
        R = sum((-1)**s * math.comb(n - s, s) *
                math.comb(n - 2 * s, (n - a) // 2 - s) * r**(n - 2 * s)
                for s in range((n - a) // 2 + 1))
        cols.append(R * (np.cos(m * p) if m >= 0 else np.sin(m * p)))
    return np.column_stack(cols)


o = Optic()
o.add_surface(index=0, radius=np.inf, thickness=np.inf)
o.add_surface(index=1, radius=12, thickness=6,
              material=IdealMaterial(1.5168), is_stop=True)
o.add_surface(index=2, radius=-12, thickness=9)
o.add_surface(index=3)
o.set_aperture('EPD', 13.0)
o.set_field_type('angle')
o.add_field(y=0)
o.add_wavelength(0.55, is_primary=True)

z = ZernikeOPD(o, (0, 0), 0.55, num_rings=15, zernike_type='fringe',
               num_terms=NT)
opd = np.asarray(z.z, dtype=float)
valid = np.isfinite(opd)
print(f'samples: {opd.size}, valid: {valid.sum()}, failed (NaN): '
      f'{(~valid).sum()}, largest valid pupil radius: '
      f'{np.hypot(z.x, z.y)[valid].max():.3f}')

# expected: least squares over the valid samples
A = fringe_basis(z.x[valid], z.y[valid], NT)
c_ref, *_ = np.linalg.lstsq(A, opd[valid], rcond=None)
res_ref = np.sqrt(np.mean((A @ c_ref - opd[valid])**2))
rms_opd = np.sqrt(np.mean(opd[valid]**2))

c_lib = np.asarray(z.coeffs, dtype=float)
model = z.zernike.poly(z.radius, z.phi)
res_lib = np.sqrt(np.mean((model[valid] - opd[valid])**2))
print(f'RMS of the valid sampled OPD           : {rms_opd:.4f} waves')
print(f'expected (fit over valid samples)      : Z1={c_ref[0]:+.4f} '
      f'Z4={c_ref[3]:+.4f} Z9={c_ref[8]:+.4f}, residual RMS {res_ref:.2e}')
print(f'library ZernikeOPD                     : Z1={c_lib[0]:+.4f} '
      f'Z4={c_lib[3]:+.4f} Z9={c_lib[8]:+.4f}, residual RMS {res_lib:.2e}')

ok = bool(np.all(np.isfinite(c_lib))) and res_lib <= 1.5 * res_ref + 1e-9
if not ok:
    print(f'FAIL: {np.isnan(c_lib).sum()} of {c_lib.size} coefficients are '
          f'NaN; the decomposition does not reproduce the '
          f'{valid.sum()} valid OPD samples')
print('PASS' if ok else 'VIOLATED')
sys.exit(0 if ok else 1)

"""C08 / 4 - the five Seidel sums are NaN for an exactly afocal lens
(Galilean beam expander, plane-parallel window in collimated light).

The sums  S_I = -sum A^2 h d(u/n),  ...  S_V  are finite for an afocal system,
but the library forms them as  -2 n'u' * sum(transverse term)  with every
transverse term containing  h' = H / (n'u') ;  for u' = 0 this is inf * 0.

Reference: own y-nu trace and Welford surface contributions (library sign
S_lib = -S_Welford, verified on the focal control lens below).
Run: cd /tmp/hunt2/C08 && PYTHONPATH=/tmp/hunt2/C08 /venv/bin/python demo.py
"""
import sys
import warnings
import numpy as np
from optiland.optic import Optic
from optiland.materials import IdealMaterial

warnings.filterwarnings('ignore')
EPD, FIELD = 5.0, 2.0


def build(surfs):
    """surfs: list of (radius, thickness, index after); stop at surface 1"""
    o = Optic()
    o.add_surface(index=0, radius=np.inf, thickness=np.inf)
    for k, (r, t, n) in enumerate(surfs):
        o.add_surface(index=k + 1, radius=r, thickness=t,
                      material=IdealMaterial(n, 0), is_stop=(k == 0))
    o.add_surface(index=len(surfs) + 1)
    o.set_aperture('EPD', EPD)
    o.set_field_type('angle')
    o.add_field(y=0)
    o.add_field(y=FIELD)
    o.add_wavelength(0.55, is_primary=True)
    return o


def seidel_reference(surfs):
    """Welford sums, stop at surface 1 (chief ray through its vertex),
    object at infinity.  S_V in the form without division by A."""
    n_prev = 1.0
    y, u = EPD / 2, 0.0
    yb, ub = 0.0, np.tan(np.radians(FIELD))
    H = n_prev * (u * yb - ub * y)
    S = np.zeros(5)
    for r, t, n in surfs:
        c = 0.0 if np.isinf(r) else 1.0 / r
        A = n_prev * (u + y * c)
        Ab = n_prev * (ub + yb * c)
        u2 = (n_prev * u - y * c * (n - n_prev)) / n
        ub2 = (n_prev * ub - yb * c * (n - n_prev)) / n
        d_un = u2 / n - u / n_prev
        d_1n = 1 / n - 1 / n_prev
        d_1n2 = 1 / n ** 2 - 1 / n_prev ** 2
        S[0] += -A * A * y * d_un
        S[1] += -A * Ab * y * d_un
        S[2] += -Ab * Ab * y * d_un
        S[3] += -H * H * c * d_1n
        S[4] += -Ab * (Ab * Ab * y * d_1n2 + c * yb * (2 * H - A * yb) * d_1n)
        y, yb = y + u2 * t, yb + ub2 * t
        u, ub, n_prev = u2, ub2, n
    return -S, u      # library sign, final marginal slope


systems = {
    'control: focal singlet': [(50.0, 5.0, 1.5), (-50.0, 40.0, 1.0)],
    'Galilean 2x beam expander': [(np.inf, 2.0, 1.5), (25.0, 50.0, 1.0),
                                  (50.0, 4.0, 1.5), (np.inf, 20.0, 1.0)],
    'plane-parallel window': [(np.inf, 5.0, 1.5), (np.inf, 20.0, 1.0)],
}
fail = False
for name, surfs in systems.items():
    exp, u_final = seidel_reference(surfs)
    got = build(surfs).aberrations.seidels()
    ok = np.all(np.isfinite(got)) and np.allclose(got, exp, rtol=1e-8,
                                                  atol=1e-14)
    print('%s (final marginal slope %.3g)' % (name, u_final))
    print('   expected', exp)
    print('   library ', got, '' if ok else '<-- VIOLATION')
    fail |= not ok
sys.exit(1 if fail else 0)
